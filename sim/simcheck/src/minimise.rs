//! Minimisation of a failing sub-run: delta debugging over the preemption list, then faults,
//! then scenario-level simplifications. A candidate is kept when the same (oracle, class)
//! is observed again; the trace actually taken by the kept candidate becomes the new baseline.

use crate::common::Family;
use serde_json::{json, Value};
use std::time::{Duration, Instant};

struct Ctx<'a> {
    fam: &'a dyn Family,
    oracle: String,
    class: String,
    runs: u32,
    max_runs: u32,
    deadline: Instant,
}

impl Ctx<'_> {
    fn exhausted(&self) -> bool {
        self.runs >= self.max_runs || Instant::now() > self.deadline
    }
    /// Re-execute; Some((normalised replay, message)) if the same violation is observed.
    fn test(&mut self, replay: &Value) -> Option<(Value, String)> {
        if self.exhausted() {
            return None;
        }
        self.runs += 1;
        let got = self.fam.replay(replay);
        got.into_iter()
            .find(|g| g.oracle == self.oracle && g.class == self.class)
            .map(|g| (g.replay, g.message))
    }
}

fn arr_len(v: &Value, k: &str) -> usize {
    v["trace"][k].as_array().map(|a| a.len()).unwrap_or(0)
}

fn ddmin_list(ctx: &mut Ctx, best: &mut Value, msg: &mut String, key: &str) {
    let mut n = 2usize;
    loop {
        let items: Vec<Value> = best["trace"][key].as_array().cloned().unwrap_or_default();
        if items.is_empty() || ctx.exhausted() {
            return;
        }
        let len = items.len();
        let chunk = (len + n - 1) / n;
        let mut reduced = false;
        let mut start = 0;
        while start < len {
            let end = (start + chunk).min(len);
            let mut cand_items = items[..start].to_vec();
            cand_items.extend_from_slice(&items[end..]);
            let mut cand = best.clone();
            cand["trace"][key] = json!(cand_items);
            if let Some((norm, m)) = ctx.test(&cand) {
                *best = norm;
                *msg = m;
                reduced = true;
                break;
            }
            start = end;
        }
        if reduced {
            n = n.saturating_sub(1).max(2);
            continue;
        }
        if chunk <= 1 {
            return;
        }
        n = (n * 2).min(len);
    }
}

pub fn minimise(fam: &dyn Family, doc: &Value) -> Value {
    let oracle = doc["violation"]["oracle"].as_str().unwrap_or("").to_string();
    let class = doc["violation"]["class"].as_str().unwrap_or("").to_string();
    let mut ctx = Ctx {
        fam,
        oracle,
        class,
        runs: 0,
        max_runs: 400,
        deadline: Instant::now() + Duration::from_secs(180),
    };
    let original = doc["replay"].clone();
    let before = json!({
        "preemptions": arr_len(&original, "preemptions"),
        "stale_loads": arr_len(&original, "stale_loads"),
        "fs_faults": arr_len(&original, "fs_faults"),
    });
    // baseline must reproduce
    let Some((mut best, mut msg)) = ctx.test(&original) else {
        let mut d = doc.clone();
        d["minimised_from"] = json!({"note": "baseline did not reproduce inside the minimiser; file left as recorded"});
        return d;
    };
    // 1. schedule
    ddmin_list(&mut ctx, &mut best, &mut msg, "preemptions");
    // 2. faults
    ddmin_list(&mut ctx, &mut best, &mut msg, "stale_loads");
    ddmin_list(&mut ctx, &mut best, &mut msg, "fs_faults");
    if best["trace"]["slow"].as_array().map(|a| a.iter().any(|x| x.as_u64() != Some(1))).unwrap_or(false) {
        let mut cand = best.clone();
        cand["trace"]["slow"] = json!([]);
        if let Some((n, m)) = ctx.test(&cand) {
            best = n;
            msg = m;
        }
    }
    // abort: earliest instant that still fails (not monotone: try a few)
    if best["sim"]["abort"]["kind"] == json!("at_poll") {
        let k = best["sim"]["abort"]["k"].as_u64().unwrap_or(1);
        for cand_k in [1, 2, k / 4, k / 2, k.saturating_sub(1)] {
            if cand_k >= 1 && cand_k < best["sim"]["abort"]["k"].as_u64().unwrap_or(1) {
                let mut cand = best.clone();
                cand["sim"]["abort"]["k"] = json!(cand_k);
                if let Some((n, m)) = ctx.test(&cand) {
                    best = n;
                    msg = m;
                    break;
                }
            }
        }
    }
    // 3. scenario-level simplifications, greedily, then re-minimise the schedule once
    let mut changed = true;
    let mut rounds = 0;
    while changed && rounds < 3 && !ctx.exhausted() {
        changed = false;
        rounds += 1;
        for cand in fam.simplify(&best) {
            if let Some((n, m)) = ctx.test(&cand) {
                best = n;
                msg = m;
                changed = true;
                break;
            }
        }
    }
    if rounds > 1 {
        ddmin_list(&mut ctx, &mut best, &mut msg, "preemptions");
    }
    let after = json!({
        "preemptions": arr_len(&best, "preemptions"),
        "stale_loads": arr_len(&best, "stale_loads"),
        "fs_faults": arr_len(&best, "fs_faults"),
    });
    let mut out = doc.clone();
    out["replay"] = best;
    out["violation"]["message"] = json!(msg);
    out["minimised_from"] = json!({"before": before, "after": after, "candidate_runs": ctx.runs});
    out
}
