use serde_json::Value;
use std::str::FromStr;
use yamaquasi::Uint;

pub fn uint_from_u128(x: u128) -> Uint {
    Uint::from(x)
}

pub fn uint_dec(x: &Uint) -> String {
    x.to_string()
}

pub fn parse_uint(s: &str) -> Uint {
    Uint::from_str(s).expect("bad decimal integer")
}

pub fn jstr(v: &Value, k: &str) -> String {
    v[k].as_str().unwrap_or_else(|| panic!("missing string field {k}")).to_string()
}
pub fn ju64(v: &Value, k: &str) -> u64 {
    v[k].as_u64().unwrap_or_else(|| panic!("missing u64 field {k}"))
}
pub fn jopt_u64(v: &Value, k: &str) -> Option<u64> {
    v.get(k).and_then(|x| x.as_u64())
}
pub fn jf64(v: &Value, k: &str) -> f64 {
    v[k].as_f64().unwrap_or_else(|| panic!("missing f64 field {k}"))
}

pub fn hex64(x: u64) -> String {
    format!("{x:016x}")
}
