//! SimConfig <-> JSON (replay files carry the fully resolved configuration).

use serde_json::{json, Value};
use simcore::{
    AbortPlan, ClaimPolicy, FsFaultCfg, ReplayPlan, RngBias, SimConfig, SimOutcome, StaleCfg,
    Strategy,
};

pub fn strategy_to_json(s: &Strategy) -> Value {
    match s {
        Strategy::Default => json!({"kind": "default"}),
        Strategy::Random => json!({"kind": "random"}),
        Strategy::Sticky(p) => json!({"kind": "sticky", "p": p}),
        Strategy::RoundRobin(q) => json!({"kind": "roundrobin", "q": q}),
        Strategy::Pct(d) => json!({"kind": "pct", "depth": d}),
    }
}

pub fn strategy_from_json(v: &Value) -> Strategy {
    match v["kind"].as_str().unwrap_or("default") {
        "random" => Strategy::Random,
        "sticky" => Strategy::Sticky(v["p"].as_f64().unwrap_or(0.9)),
        "roundrobin" => Strategy::RoundRobin(v["q"].as_u64().unwrap_or(1)),
        "pct" => Strategy::Pct(v["depth"].as_u64().unwrap_or(1) as u32),
        _ => Strategy::Default,
    }
}

pub fn abort_to_json(a: &AbortPlan) -> Value {
    match a {
        AbortPlan::Never => json!({"kind": "never"}),
        AbortPlan::AtPoll(k) => json!({"kind": "at_poll", "k": k}),
        AbortPlan::AtTime(t) => json!({"kind": "at_time", "t": t}),
        AbortPlan::AtRegion(r, p) => json!({"kind": "at_region", "region": r, "poll_in_region": p}),
    }
}

pub fn abort_from_json(v: &Value) -> AbortPlan {
    match v["kind"].as_str().unwrap_or("never") {
        "at_poll" => AbortPlan::AtPoll(v["k"].as_u64().unwrap()),
        "at_time" => AbortPlan::AtTime(v["t"].as_u64().unwrap()),
        "at_region" => AbortPlan::AtRegion(v["region"].as_u64().unwrap(), v["poll_in_region"].as_u64().unwrap()),
        _ => AbortPlan::Never,
    }
}

fn claim_to_str(c: ClaimPolicy) -> &'static str {
    match c {
        ClaimPolicy::InOrder => "in_order",
        ClaimPolicy::Halving => "halving",
        ClaimPolicy::RandomPerm => "random_perm",
    }
}
fn claim_from_str(s: &str) -> ClaimPolicy {
    match s {
        "halving" => ClaimPolicy::Halving,
        "random_perm" => ClaimPolicy::RandomPerm,
        _ => ClaimPolicy::InOrder,
    }
}

fn bias_to_json(b: &RngBias) -> Value {
    match b {
        RngBias::Fair => json!({"kind": "fair"}),
        RngBias::LowWeight { prefix } => json!({"kind": "low_weight", "prefix": prefix}),
        RngBias::Repeated { prefix } => json!({"kind": "repeated", "prefix": prefix}),
        RngBias::ZeroLanes { prefix } => json!({"kind": "zero_lanes", "prefix": prefix}),
        RngBias::AllZero => json!({"kind": "all_zero"}),
    }
}
fn bias_from_json(v: &Value) -> RngBias {
    let prefix = v["prefix"].as_u64().unwrap_or(0);
    match v["kind"].as_str().unwrap_or("fair") {
        "low_weight" => RngBias::LowWeight { prefix },
        "repeated" => RngBias::Repeated { prefix },
        "zero_lanes" => RngBias::ZeroLanes { prefix },
        "all_zero" => RngBias::AllZero,
        _ => RngBias::Fair,
    }
}

pub fn cfg_to_json(c: &SimConfig) -> Value {
    json!({
        "seed_schedule": c.seed_schedule,
        "seed_fault": c.seed_fault,
        "seed_rng": c.seed_rng,
        "seed_fs": c.seed_fs,
        "seed_claim": c.seed_claim,
        "strategy": strategy_to_json(&c.strategy),
        "stall_prob": c.stall_prob,
        "stall_prob_store": c.stall_prob_store,
        "stall_max_len": c.stall_max_len,
        "slow_max": c.slow_max,
        "stale": c.stale.as_ref().map(|s| json!({"prob": s.prob, "max_consecutive": s.max_consecutive})),
        "abort": abort_to_json(&c.abort),
        "step_cap": c.step_cap,
        "expected_steps": c.expected_steps,
        "num_threads_default": c.num_threads_default,
        "claim_policy": claim_to_str(c.claim_policy),
        "rng_bias": bias_to_json(&c.rng_bias),
        "rng_draw_budget": c.rng_draw_budget,
        "fs": {
            "short_write_prob": c.fs.short_write_prob,
            "eintr_prob": c.fs.eintr_prob,
            "hard_error_at_write": c.fs.hard_error_at_write,
            "create_fails": c.fs.create_fails,
        },
        "main_stack": c.main_stack,
        "worker_stack": c.worker_stack,
    })
}

pub fn cfg_from_json(v: &Value) -> SimConfig {
    let g = |k: &str| v[k].as_u64().unwrap_or(0);
    SimConfig {
        seed_schedule: g("seed_schedule"),
        seed_fault: g("seed_fault"),
        seed_rng: g("seed_rng"),
        seed_fs: g("seed_fs"),
        seed_claim: g("seed_claim"),
        strategy: strategy_from_json(&v["strategy"]),
        stall_prob: v["stall_prob"].as_f64().unwrap_or(0.0),
        stall_prob_store: v["stall_prob_store"].as_f64().unwrap_or(0.0),
        stall_max_len: g("stall_max_len"),
        slow_max: g("slow_max").max(1),
        stale: if v["stale"].is_null() {
            None
        } else {
            Some(StaleCfg {
                prob: v["stale"]["prob"].as_f64().unwrap_or(0.0),
                max_consecutive: v["stale"]["max_consecutive"].as_u64().unwrap_or(4) as u32,
            })
        },
        abort: abort_from_json(&v["abort"]),
        step_cap: v["step_cap"].as_u64().unwrap_or(u64::MAX),
        expected_steps: g("expected_steps").max(2),
        replay: None,
        num_threads_default: g("num_threads_default").max(1) as usize,
        claim_policy: claim_from_str(v["claim_policy"].as_str().unwrap_or("in_order")),
        rng_bias: bias_from_json(&v["rng_bias"]),
        rng_draw_budget: v["rng_draw_budget"].as_u64().unwrap_or(u64::MAX),
        fs: FsFaultCfg {
            short_write_prob: v["fs"]["short_write_prob"].as_f64().unwrap_or(0.0),
            eintr_prob: v["fs"]["eintr_prob"].as_f64().unwrap_or(0.0),
            hard_error_at_write: v["fs"]["hard_error_at_write"].as_u64(),
            create_fails: v["fs"]["create_fails"].as_bool().unwrap_or(false),
        },
        main_stack: v["main_stack"].as_u64().unwrap_or(8 << 20) as usize,
        worker_stack: v["worker_stack"].as_u64().unwrap_or(2 << 20) as usize,
        wall_limit_ms: None,
    }
}

/// The resolved, replayable part of an executed run: schedule (preemption points) and faults.
pub fn trace_to_json(o: &SimOutcome) -> Value {
    json!({
        "preemptions": o.preemptions.iter().map(|&(s, t)| json!([s, t])).collect::<Vec<_>>(),
        "stale_loads": o.stale_events.iter().map(|&(s, a)| json!([s, a])).collect::<Vec<_>>(),
        "fs_faults": o.fs_events.iter().map(|&(s, k, n)| json!([s, k, n])).collect::<Vec<_>>(),
        "slow": o.slow_factors,
    })
}

pub fn plan_from_json(v: &Value) -> ReplayPlan {
    let arr = |k: &str| v[k].as_array().cloned().unwrap_or_default();
    ReplayPlan {
        preemptions: arr("preemptions")
            .iter()
            .map(|e| (e[0].as_u64().unwrap(), e[1].as_u64().unwrap() as usize))
            .collect(),
        stale: arr("stale_loads")
            .iter()
            .map(|e| (e[0].as_u64().unwrap(), e[1].as_u64().unwrap() as u32))
            .collect(),
        fs: arr("fs_faults")
            .iter()
            .map(|e| {
                (
                    e[0].as_u64().unwrap(),
                    e[1].as_u64().unwrap() as u8,
                    e[2].as_u64().unwrap(),
                )
            })
            .collect(),
        slow: arr("slow").iter().map(|e| e.as_u64().unwrap_or(1)).collect(),
    }
}

pub fn plan_to_json(p: &ReplayPlan) -> Value {
    json!({
        "preemptions": p.preemptions.iter().map(|&(s, t)| json!([s, t])).collect::<Vec<_>>(),
        "stale_loads": p.stale.iter().map(|&(s, a)| json!([s, a])).collect::<Vec<_>>(),
        "fs_faults": p.fs.iter().map(|&(s, k, n)| json!([s, k, n])).collect::<Vec<_>>(),
        "slow": p.slow,
    })
}
