//! Scenario family `classgroup_threads` (C04, a share of its scenarios): C04 is anchored in
//! classgroup.rs too — the class-group sieve runs its A-families on the pool and inserts into a shared
//! `RwLock<CRelationSet>` exactly as the factoring sieves do. What C04 says about a pooled call is
//! judged here for `classgroup::classgroup`: it terminates (S1: no deadlock, no livelock) and never
//! trips an assertion of the shared relation store or of the sieve driver (S2: a panic located in
//! src/relationcls.rs or src/classgroup.rs, or a poisoned lock), relative to a single-threaded
//! reference run that completed. Panics of the linear algebra after the sieve (the known,
//! input- and relation-set-dependent floating-point assertion of DESIGN 10.4) are not C04's subject:
//! counted. Whether the returned group is right is C18's subject (same workload, judged there).

use crate::common::{Family, Report, Tier, Violation};
use crate::scen::clsgrp::{gen_spec, run_cls, RunOut, Spec};
use crate::scen::factor::gen_sim_cfg;
use crate::simjson::{cfg_from_json, cfg_to_json, plan_from_json, trace_to_json};
use serde_json::{json, Value};
use simcore::prng::{derive, mix, Rng};
use simcore::{AbortPlan, RunEnd, SimConfig};

pub struct ClsThreadsFamily;

fn judge(out: &RunOut) -> Vec<(String, String, String)> {
    let mut v = vec![];
    match &out.sim.end {
        RunEnd::Completed | RunEnd::WallLimit => {}
        RunEnd::Panic { message, location } => {
            let file = location.rsplit_once(':').map(|x| x.0).unwrap_or(location);
            let store_or_sieve = file.ends_with("src/relationcls.rs") || file.ends_with("src/classgroup.rs") || message.contains("PoisonError");
            if store_or_sieve {
                v.push(("S2_no_panic".into(), format!("panic@{location}"), message.chars().take(300).collect()));
            }
        }
        RunEnd::Deadlock(m) => v.push(("S1_terminates".into(), "deadlock".into(), m.chars().take(300).collect())),
        RunEnd::Livelock => v.push(("S1_terminates".into(), "livelock".into(), "step cap exceeded".into())),
    }
    v
}

fn replay_json(spec: &Spec, threads: Option<usize>, cfg: &SimConfig, out: &RunOut, seed: u64, idx: u64, sub: u64) -> Value {
    json!({
        "family": "classgroup_threads",
        "property": "C04",
        "verif_seed": seed,
        "scenario_index": idx,
        "sub_run": sub,
        "scenario": spec.to_json(),
        "threads": threads,
        "sim": cfg_to_json(cfg),
        "trace": trace_to_json(&out.sim),
        "observed": { "end": out.sim.end.class(), "steps": out.sim.steps },
    })
}

pub fn run_c04(tier: Tier, seed: u64, idx: u64) -> Report {
    let prop = "C04";
    let mut rep = Report::new(idx);
    let mut rng = Rng::new(derive(seed, prop, idx, "scenario"));
    let mut spec = gen_spec(&mut rng, tier);
    spec.fb_size = None;
    let mut sample = spec.to_json();
    sample["entry_point"] = json!("classgroup");
    rep.sample = sample;
    rep.stat("scenarios_running_the_class_group_sieve_on_a_pool", 1);
    crate::common::phase(idx, "reference");
    let mut rcfg = SimConfig::reference(derive(seed, prop, idx, "reference"));
    rcfg.wall_limit_ms = Some(if tier == Tier::Quick { 15_000 } else { 60_000 });
    rcfg.step_cap = 5_000_000;
    let reference = run_cls(&spec, None, false, rcfg);
    rep.absorb(&reference.sim, false);
    if reference.sim.end != RunEnd::Completed {
        rep.reference_failed = Some(format!("{} {}", reference.sim.end.class(), match &reference.sim.end {
            RunEnd::Panic { message, .. } => message.chars().take(100).collect::<String>(),
            _ => String::new(),
        }));
        return rep;
    }
    crate::common::phase(idx, "subruns");
    let ref_steps = reference.sim.steps.max(200);
    let nsub = if tier == Tier::Quick { 12 } else { 32 };
    for j in 0..nsub {
        let mut r = Rng::new(derive(seed, prop, idx, "sub") ^ mix(&[j]));
        let threads = *r.pick(&[Some(2usize), Some(2), Some(3), Some(4), Some(4), Some(8), Some(16), Some(0)]);
        let workers = match threads {
            Some(0) => 8,
            Some(t) => t,
            None => 1,
        };
        let mut cfg = gen_sim_cfg(&mut r, ref_steps, workers, j % 4 != 0);
        cfg.abort = AbortPlan::Never;
        let out = run_cls(&spec, threads, false, cfg.clone());
        rep.absorb(&out.sim, false);
        rep.stat(&format!("threads_{}", threads.map(|t| t.to_string()).unwrap_or("none".into())), 1);
        if let RunEnd::Panic { location, .. } = &out.sim.end {
            rep.stat("classgroup_pool_runs_ending_in_a_panic", 1);
            rep.stat(&format!("classgroup_panic_at_{}", location.trim_start_matches("src/")), 1);
        }
        for (oracle, class, message) in judge(&out) {
            rep.violations.push(Violation {
                property: "C04".into(),
                oracle,
                class,
                message,
                replay: replay_json(&spec, threads, &cfg, &out, seed, idx, j + 1),
            });
        }
    }
    rep
}

impl Family for ClsThreadsFamily {
    fn name(&self) -> &'static str {
        "classgroup_threads"
    }
    fn rule(&self, _prop: &str, _tier: Tier) -> String {
        "class-group sieve on a pool: see the C04 rule of the factor family".into()
    }
    fn count(&self, _prop: &str, _tier: Tier) -> u64 {
        0
    }
    fn run(&self, _prop: &str, tier: Tier, seed: u64, idx: u64) -> Report {
        run_c04(tier, seed, idx)
    }
    fn replay(&self, replay: &Value) -> Vec<Violation> {
        let spec = Spec::from_json(&replay["scenario"]);
        let threads = replay["threads"].as_u64().map(|t| t as usize);
        let mut cfg = cfg_from_json(&replay["sim"]);
        cfg.replay = Some(plan_from_json(&replay["trace"]));
        let out = run_cls(&spec, threads, false, cfg);
        judge(&out)
            .into_iter()
            .map(|(oracle, class, message)| {
                let mut r = replay.clone();
                r["trace"] = trace_to_json(&out.sim);
                r["observed"]["end"] = json!(out.sim.end.class());
                Violation { property: "C04".into(), oracle, class, message, replay: r }
            })
            .collect()
    }
    fn simplify(&self, replay: &Value) -> Vec<Value> {
        let mut c = vec![];
        if let Some(t) = replay["threads"].as_u64() {
            for nt in [2u64, 3, 4] {
                if nt < t {
                    let mut r = replay.clone();
                    r["threads"] = json!(nt);
                    c.push(r);
                }
            }
        }
        if replay["sim"]["claim_policy"] != json!("in_order") {
            let mut r = replay.clone();
            r["sim"]["claim_policy"] = json!("in_order");
            c.push(r);
        }
        c
    }
    fn components(&self) -> Value {
        json!({})
    }
    fn describe(&self, _prop: &str, tier: Tier, seed: u64, idx: u64) -> Value {
        let mut rng = Rng::new(derive(seed, "C04", idx, "scenario"));
        gen_spec(&mut rng, tier).to_json()
    }
}
