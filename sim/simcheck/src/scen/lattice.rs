//! Scenario family `lattice` (C19, scoped): the pool-driven CRT determinant `SparseMat::detz`
//! and the sparse lattice index under every completion order of the chunks.

use crate::common::{Family, Report, Tier, Violation};
use crate::scen::factor::gen_sim_cfg;
use crate::simjson::{cfg_from_json, cfg_to_json, plan_from_json, trace_to_json};
use bnum::types::I1024;
use serde_json::{json, Value};
use simcore::prng::{derive, Rng};
use simcore::{run_sim, RunEnd, SimConfig, SimOutcome};
use yamaquasi::matrix::intsparse::{self, SparseMat};

pub struct LatticeFamily;

#[derive(Clone, Debug)]
pub struct Spec {
    pub dim: usize,
    pub rows: Vec<Vec<(u32, i32)>>,
    /// extra rows (integer combinations of the first `dim`) for the lattice index; empty = det only
    pub extra_rows: Vec<Vec<(u32, i32)>>,
    /// if not empty: the generating set given to the lattice index routine instead of rows + extra_rows
    pub index_rows: Vec<Vec<(u32, i32)>>,
    pub kind: String,
    /// determinant known by construction (decimal), if any
    pub known_det: Option<String>,
}

impl Spec {
    fn to_json(&self) -> Value {
        json!({
            "dim": self.dim,
            "kind": self.kind,
            "known_det": self.known_det,
            "rows": self.rows.iter().map(|r| r.iter().map(|&(j, e)| json!([j, e])).collect::<Vec<_>>()).collect::<Vec<_>>(),
            "extra_rows": self.extra_rows.iter().map(|r| r.iter().map(|&(j, e)| json!([j, e])).collect::<Vec<_>>()).collect::<Vec<_>>(),
            "index_rows": self.index_rows.iter().map(|r| r.iter().map(|&(j, e)| json!([j, e])).collect::<Vec<_>>()).collect::<Vec<_>>(),
        })
    }
    fn from_json(v: &Value) -> Spec {
        let rows = |k: &str| -> Vec<Vec<(u32, i32)>> {
            v[k].as_array()
                .map(|a| {
                    a.iter()
                        .map(|r| {
                            r.as_array()
                                .unwrap()
                                .iter()
                                .map(|e| (e[0].as_u64().unwrap() as u32, e[1].as_i64().unwrap() as i32))
                                .collect()
                        })
                        .collect()
                })
                .unwrap_or_default()
        };
        Spec {
            dim: v["dim"].as_u64().unwrap() as usize,
            rows: rows("rows"),
            extra_rows: rows("extra_rows"),
            index_rows: rows("index_rows"),
            kind: v["kind"].as_str().unwrap_or("").to_string(),
            known_det: v["known_det"].as_str().map(|s| s.to_string()),
        }
    }
    fn summary(&self) -> Value {
        json!({
            "dim": self.dim, "kind": self.kind, "known_det": self.known_det,
            "nonzeros": self.rows.iter().map(|r| r.len()).sum::<usize>(),
            "extra_rows": self.extra_rows.len(),
            "index_rows": self.index_rows.len(),
            "first_rows": self.rows.iter().take(3).map(|r| r.iter().map(|&(j, e)| json!([j, e])).collect::<Vec<_>>()).collect::<Vec<_>>(),
        })
    }
}

/// Fraction-free (Bareiss) determinant with 1024-bit integers; dims <= 40 only.
pub fn bareiss_det(dim: usize, rows: &[Vec<(u32, i32)>]) -> Option<I1024> {
    if dim > 40 {
        return None;
    }
    let mut m = vec![vec![I1024::ZERO; dim]; dim];
    for (i, r) in rows.iter().enumerate() {
        for &(j, e) in r {
            m[i][j as usize] += I1024::from(e as i64);
        }
    }
    let mut sign = 1i64;
    let mut prev = I1024::ONE;
    for k in 0..dim {
        if m[k][k] == I1024::ZERO {
            let Some(s) = (k + 1..dim).find(|&i| m[i][k] != I1024::ZERO) else {
                return Some(I1024::ZERO);
            };
            m.swap(k, s);
            sign = -sign;
        }
        for i in k + 1..dim {
            for j in k + 1..dim {
                let v = m[i][j] * m[k][k] - m[i][k] * m[k][j];
                m[i][j] = v / prev;
            }
        }
        prev = m[k][k];
    }
    let d = m[dim - 1][dim - 1];
    Some(if sign < 0 { -d } else { d })
}

fn sparse_of_dense(d: &[Vec<i64>]) -> Vec<Vec<(u32, i32)>> {
    d.iter()
        .map(|r| {
            r.iter()
                .enumerate()
                .filter(|(_, &v)| v != 0)
                .map(|(j, &v)| (j as u32, v as i32))
                .collect()
        })
        .collect()
}

/// Rows of the lattice spanned by `dense` (so the index of the row lattice stays |det|): either
/// +-1/2 combinations of two basis rows (minors of a row selection are then 0, +-1, +-2 times the
/// index) or, half of the time, combinations of up to three basis rows with coefficients up to
/// 6 in absolute value: the first minors are then larger multiples c of the index, several divisors
/// of the running gcd fall inside the bounds and compute_lattice_index has to fold more minors.
fn gen_extra_rows(rng: &mut Rng, dense: &[Vec<i64>], dim: usize) -> Vec<Vec<(u32, i32)>> {
    let mut extra = vec![];
    let rich = rng.chance(0.5);
    let nextra = if rich { rng.range(2, 8) } else { rng.range(2, 6) };
    for _ in 0..nextra {
        let row: Vec<i64> = if rich {
            let k = rng.range(1, 3);
            let mut row = vec![0i64; dim];
            for _ in 0..k {
                let i = rng.below(dim as u64) as usize;
                let m = *rng.pick(&[1i64, -1, 2, -2, 3, -3, 4, -4, 5, -5, 6, -6, 4, 5, 6]);
                for c in 0..dim {
                    row[c] += m * dense[i][c];
                }
            }
            row
        } else {
            let i = rng.below(dim as u64) as usize;
            let j = rng.below(dim as u64) as usize;
            let (mi, mj) = (*rng.pick(&[1i64, -1, 2]), *rng.pick(&[1i64, -1, 0]));
            (0..dim).map(|c| mi * dense[i][c] + mj * dense[j][c]).collect()
        };
        if row.iter().all(|v| v.abs() <= 30000) && row.iter().any(|&v| v != 0) {
            extra.push(row.iter().enumerate().filter(|(_, &v)| v != 0).map(|(c, &v)| (c as u32, v as i32)).collect());
        }
    }
    extra
}

/// A generating set of the lattice spanned by `dense`, as real relation matrices are: the basis
/// rows and a few copies, mixed by random unimodular row operations over the whole set, so that
/// most selections of `dim` rows are non-singular and their minors are varied multiples of the index.
fn gen_mixed_rows(rng: &mut Rng, dense: &[Vec<i64>], dim: usize) -> Vec<Vec<(u32, i32)>> {
    let k = rng.range(2, 10) as usize;
    let mut all: Vec<Vec<i64>> = dense.to_vec();
    for _ in 0..k {
        let i = rng.below(dim as u64) as usize;
        all.push(dense[i].clone());
    }
    let total = all.len();
    let ops = rng.range(3 * total as u64, 8 * total as u64);
    for _ in 0..ops {
        let i = rng.below(total as u64) as usize;
        let j = rng.below(total as u64) as usize;
        if i == j {
            continue;
        }
        let m = *rng.pick(&[1i64, -1, 1, -1, 1, -1, 2, -2]);
        let new: Vec<i64> = (0..dim).map(|c| all[i][c] + m * all[j][c]).collect();
        if new.iter().all(|v| v.abs() <= 30000) {
            all[i] = new;
        }
    }
    all.iter()
        .map(|row| row.iter().enumerate().filter(|(_, &v)| v != 0).map(|(c, &v)| (c as u32, v as i32)).collect())
        .collect()
}

pub fn gen_spec(rng: &mut Rng, tier: Tier) -> Spec {
    let mut spec = gen_matrix(rng, tier);
    // lattice index variant: extra rows that are small combinations of basis rows, so the row
    // lattice (and its index, |det|) is unchanged
    if spec.extra_rows.is_empty() && spec.kind != "singular_repeated_row" && rng.chance(0.5) {
        let dim = spec.dim;
        let dense: Vec<Vec<i64>> = spec
            .rows
            .iter()
            .map(|r| {
                let mut d = vec![0i64; dim];
                for &(j, e) in r {
                    d[j as usize] += e as i64;
                }
                d
            })
            .collect();
        if rng.chance(0.65) {
            spec.index_rows = gen_mixed_rows(rng, &dense, dim);
            spec.kind.push_str("+lattice_index_mixed");
        } else {
            spec.extra_rows = gen_extra_rows(rng, &dense, dim);
            spec.kind.push_str("+lattice_index");
        }
    }
    spec
}

fn gen_matrix(rng: &mut Rng, tier: Tier) -> Spec {
    let maxdim = if tier == Tier::Quick { 64 } else { 200 };
    let kind = rng.weighted(&[3, 4, 1, 1, 5]);
    if kind == 4 {
        // large determinants (needing 2-10 chunks of four 56-bit CRT primes): heavy random diagonal
        // plus a few small off-diagonal entries
        let dim = rng.range(40, if tier == Tier::Quick { 150 } else { 250 }) as usize;
        // entries up to the i16 range the sparse format stores: a heavy row lowers the CRT prime size
        // (primes are chosen below 2^63 / norm), so the number of chunks per determinant bit varies
        let dmax = *rng.pick(&[30i32, 60, 120, 120, 4000, 30000]);
        let mut rows = vec![];
        for i in 0..dim {
            let mut v = rng.range(2, dmax as u64) as i32;
            if rng.chance(0.4) {
                v = -v;
            }
            let mut row: Vec<(u32, i32)> = vec![(i as u32, v)];
            // a full cycle keeps the matrix irreducible (the Wiedemann sequence taken from the first
            // coordinate then has full degree)
            row.push((((i + 1) % dim) as u32, *rng.pick(&[1, -1, 2, 3])));
            for _ in 0..rng.range(0, 3) {
                let j = rng.below(dim as u64) as u32;
                if row.iter().all(|e| e.0 != j) {
                    row.push((j, *rng.pick(&[1, 1, -1, -1, 2, -2, 3, 7, -11])));
                }
            }
            rows.push(row);
        }
        return Spec { dim, rows, extra_rows: vec![], index_rows: vec![], kind: "heavy_diagonal_large_det".into(), known_det: None };
    }
    let dim = match rng.below(3) {
        0 => rng.range(8, 16),
        1 => rng.range(8, 40),
        _ => rng.range(8, maxdim),
    } as usize;
    match kind {
        0 => {
            // like the repository's own test matrices: polynomial column patterns, values 1,2,3
            let (a0, a1, b1, c1) = (rng.below(dim as u64), rng.range(1, 5), rng.range(1, 7), rng.range(1, 9));
            let vals = [*rng.pick(&[1, -1, 1]), *rng.pick(&[2, -2, 1, 3]), *rng.pick(&[3, -1, 2, -3])];
            let mut rows = vec![];
            for i in 0..dim as u64 {
                let a = ((i + 2 + a0) % dim as u64) as u32;
                let b = ((a1 * i * i + b1 * i + 1) % dim as u64) as u32;
                let c = ((2 * i * i + c1 * i + 4) % dim as u64) as u32;
                let mut row = vec![(a, vals[0])];
                if b != a {
                    row.push((b, vals[1]));
                }
                if c != a && c != b {
                    row.push((c, vals[2]));
                }
                rows.push(row);
            }
            Spec { dim, rows, extra_rows: vec![], index_rows: vec![], kind: "polynomial_pattern".into(), known_det: None }
        }
        1 => {
            // relation-like: a permutation-ish backbone plus a few random small entries
            let mut perm: Vec<u32> = (0..dim as u32).collect();
            rng.shuffle(&mut perm);
            let mut rows = vec![];
            for i in 0..dim {
                let mut row: Vec<(u32, i32)> = vec![(perm[i], *rng.pick(&[1, 1, -1, 2, -2, 3]))];
                let k = rng.range(1, 4);
                for _ in 0..k {
                    let j = rng.below(dim as u64) as u32;
                    if row.iter().all(|e| e.0 != j) {
                        row.push((j, *rng.pick(&[1, 1, 1, -1, -1, 2, -2, 3, -5])));
                    }
                }
                rows.push(row);
            }
            Spec { dim, rows, extra_rows: vec![], index_rows: vec![], kind: "relation_like".into(), known_det: None }
        }
        2 => {
            // a chosen diagonal hit by sparse elementary row operations: determinant known
            let mut d: Vec<Vec<i64>> = vec![vec![0; dim]; dim];
            let mut det = I1024::ONE;
            for i in 0..dim {
                let v = *rng.pick(&[1i64, 1, 1, 2, -1, 3, -2, 5, 7, -3, 4]);
                d[i][i] = v;
                det *= I1024::from(v);
            }
            let nops = rng.range(dim as u64 / 2, 2 * dim as u64);
            for _ in 0..nops {
                let i = rng.below(dim as u64) as usize;
                let j = rng.below(dim as u64) as usize;
                if i == j {
                    continue;
                }
                let m = *rng.pick(&[1i64, -1, 1, 2, -2]);
                // row_i += m * row_j, refused if an entry would leave the small range
                let ok = (0..dim).all(|c| (d[i][c] + m * d[j][c]).abs() <= 60);
                let nnz = (0..dim).filter(|&c| d[i][c] + m * d[j][c] != 0).count();
                if ok && nnz <= 12 {
                    for c in 0..dim {
                        d[i][c] += m * d[j][c];
                    }
                }
            }
            // a few row swaps (tracked sign)
            for _ in 0..rng.below(4) {
                let i = rng.below(dim as u64) as usize;
                let j = rng.below(dim as u64) as usize;
                if i != j {
                    d.swap(i, j);
                    det = -det;
                }
            }
            let rows = sparse_of_dense(&d);
            // lattice index variant: add rows that are combinations of the basis rows
            let mut extra_rows = vec![];
            if rng.chance(0.6) {
                extra_rows = gen_extra_rows(rng, &d, dim);
            }
            Spec { dim, rows, extra_rows, index_rows: vec![], kind: "known_diagonal_transformed".into(), known_det: Some(det.to_string()) }
        }
        _ => {
            // singular: a repeated row
            let mut rows: Vec<Vec<(u32, i32)>> = (0..dim)
                .map(|i| vec![(i as u32, 1), (((i * 7 + 3) % dim) as u32, if (i * 7 + 3) % dim == i { 0 } else { 2 })])
                .map(|r| r.into_iter().filter(|e| e.1 != 0).collect())
                .collect();
            let a = rng.below(dim as u64) as usize;
            let b = (a + 1 + rng.below(dim as u64 - 1) as usize) % dim;
            rows[b] = rows[a].clone();
            Spec { dim, rows, extra_rows: vec![], index_rows: vec![], kind: "singular_repeated_row".into(), known_det: Some("0".into()) }
        }
    }
}

#[derive(Clone, Debug, PartialEq)]
pub struct Out {
    pub det: String,
    pub index: Option<String>,
}

pub struct RunOut {
    pub sim: SimOutcome,
    pub out: Option<Out>,
}

pub fn run_lattice(spec: &Spec, threads: Option<usize>, cfg: SimConfig) -> RunOut {
    let s = spec.clone();
    let (sim, out) = run_sim(cfg, move || {
        let pool = threads.map(|t| rayon::ThreadPoolBuilder::new().num_threads(t).build().unwrap());
        let mat = SparseMat::new(s.rows.clone());
        let det = mat.detz(pool.as_ref());
        let mut index = None;
        if (!s.extra_rows.is_empty() || !s.index_rows.is_empty()) && !det.is_zero() {
            let mut all = if s.index_rows.is_empty() { s.rows.clone() } else { s.index_rows.clone() };
            all.extend(s.extra_rows.iter().cloned());
            let h = {
                // |det| as f64 from its decimal string (small enough in this family)
                det.unsigned_abs().to_string().parse::<f64>().unwrap_or(f64::INFINITY)
            };
            if h.is_finite() && h < 1e70 {
                let idx = intsparse::compute_lattice_index(s.dim, &all, 0.95 * h, 1.05 * h, pool.as_ref());
                index = Some(idx.to_string());
            }
        }
        Out { det: det.to_string(), index }
    });
    RunOut { sim, out }
}

fn judge(reference: Option<&Out>, out: &RunOut, is_reference: bool) -> Vec<(String, String, String)> {
    let mut v = vec![];
    if is_reference {
        return v;
    }
    match &out.sim.end {
        RunEnd::Completed | RunEnd::WallLimit => {}
        RunEnd::Panic { message, location } => v.push((
            "pool_run_no_panic".to_string(),
            format!("panic@{location}"),
            message.chars().take(300).collect(),
        )),
        RunEnd::Deadlock(m) => v.push(("terminates".into(), "deadlock".into(), m.chars().take(200).collect())),
        RunEnd::Livelock => v.push(("terminates".into(), "livelock".into(), "step cap exceeded".into())),
    }
    if let (Some(r), Some(o)) = (reference, &out.out) {
        if r.det != o.det {
            v.push((
                "pool_det_equals_sequential".into(),
                "oracle:det_differs".into(),
                format!("detz(Some(pool)) = {} but detz(None) = {}", o.det, r.det),
            ));
        }
        if r.index != o.index {
            v.push((
                "pool_index_equals_sequential".into(),
                "oracle:index_differs".into(),
                format!("sparse lattice index with pool = {:?}, without pool = {:?}", o.index, r.index),
            ));
        }
    }
    v
}

fn replay_json(spec: &Spec, threads: Option<usize>, cfg: &SimConfig, out: &RunOut, reference: Option<&Out>, seed: u64, idx: u64, sub: u64) -> Value {
    json!({
        "family": "lattice",
        "property": "C19",
        "verif_seed": seed,
        "scenario_index": idx,
        "sub_run": sub,
        "scenario": spec.to_json(),
        "threads": threads,
        "sim": cfg_to_json(cfg),
        "trace": trace_to_json(&out.sim),
        "reference": reference.map(|r| json!({"det": r.det, "index": r.index})),
        "observed": {
            "end": out.sim.end.class(),
            "det": out.out.as_ref().map(|o| o.det.clone()),
            "index": out.out.as_ref().and_then(|o| o.index.clone()),
        },
    })
}

impl Family for LatticeFamily {
    fn name(&self) -> &'static str {
        "lattice"
    }

    fn rule(&self, _prop: &str, tier: Tier) -> String {
        format!(
            "family lattice/C19/{}: base scenario i = sparse integer matrix of dimension 8..{} (polynomial column patterns like the repository's tests; \
             relation-like random +-1/+-2 rows; a chosen diagonal hit by sparse elementary row operations and tracked swaps, determinant known by construction, \
             optionally with extra dependent rows for the lattice index; singular) ; reference = SparseMat::detz(None) (and the sparse lattice index without pool), \
             then {} simulated runs of detz(Some(pool)) with 2-8 workers, all claim policies, schedule strategies, stalls before the append / the done store. \
             Non-trivial = two simulated threads runnable at some step or a fault fired; distinct = distinct interleaving fingerprint.",
            tier.name(),
            if tier == Tier::Quick { 64 } else { 200 },
            if tier == Tier::Quick { 10 } else { 32 }
        )
    }

    fn count(&self, _prop: &str, tier: Tier) -> u64 {
        match tier {
            Tier::Quick => 6000,
            Tier::Thorough => 30000,
        }
    }

    fn describe(&self, prop: &str, tier: Tier, seed: u64, idx: u64) -> Value {
        let mut rng = Rng::new(derive(seed, prop, idx, "scenario"));
        gen_spec(&mut rng, tier).summary()
    }

    fn run(&self, prop: &str, tier: Tier, seed: u64, idx: u64) -> Report {
        let mut rep = Report::new(idx);
        let mut rng = Rng::new(derive(seed, prop, idx, "scenario"));
        let spec = gen_spec(&mut rng, tier);
        rep.sample = spec.summary();
        rep.stat(&format!("kind_{}", spec.kind), 1);
        crate::common::phase(idx, "reference");
        let mut rcfg = SimConfig::reference(derive(seed, prop, idx, "reference"));
        rcfg.wall_limit_ms = Some(20_000);
        let reference = run_lattice(&spec, None, rcfg);
        rep.absorb(&reference.sim, false);
        if reference.sim.end != RunEnd::Completed {
            // sequential routine fails on this input: input-only, outside the simulated slice
            rep.stat(&format!("reference_failed_kind_{}", spec.kind), 1);
            rep.reference_failed = Some(format!("{} {}", reference.sim.end.class(), match &reference.sim.end {
                RunEnd::Panic { message, .. } => message.chars().take(100).collect::<String>(),
                _ => String::new(),
            }));
            return rep;
        }
        let rout = reference.out.clone().unwrap();
        if rout.det == "0" && spec.kind.starts_with("heavy") {
            rep.stat("heavy_diagonal_sequential_det_zero", 1);
        }
        rep.stat(&format!("det_bits_{}00", rout.det.len() * 10 / 3 / 100), 1);
        // statistics (input-only, not alarms): sequential result vs construction / own elimination
        if let Some(k) = &spec.known_det {
            if *k != rout.det {
                rep.stat("sequential_det_differs_from_construction", 1);
            } else {
                rep.stat("sequential_det_equals_construction", 1);
            }
        }
        if let Some(b) = bareiss_det(spec.dim, &spec.rows) {
            if b.to_string() != rout.det {
                if std::env::var("VERIF_TRACE").is_ok() {
                    eprintln!("DIFF idx={idx} kind={} dim={} bareiss={} detz={} known={:?}", spec.kind, spec.dim, b, rout.det, spec.known_det);
                }
                rep.stat("sequential_det_differs_from_own_elimination", 1);
            } else {
                rep.stat("sequential_det_equals_own_elimination", 1);
            }
        }
        if rout.index.is_some() {
            rep.stat("lattice_index_scenarios", 1);
            if let (Some(i), Some(k)) = (&rout.index, &spec.known_det) {
                if i.trim_start_matches('-') != k.trim_start_matches('-') {
                    rep.stat("sequential_index_differs_from_construction", 1);
                }
            }
        }
        crate::common::phase(idx, "subruns");
        let mut nsub = if tier == Tier::Quick { 10 } else { 32 };
        if let Ok(v) = std::env::var("VERIF_NSUB") {
            nsub = v.parse().unwrap_or(nsub); // debugging aid, never set by the registered commands
        }
        for j in 0..nsub {
            let mut r = Rng::new(derive(seed, prop, idx, "sub") ^ simcore::prng::mix(&[j]));
            let threads = *r.pick(&[2usize, 2, 3, 4, 4, 6, 8]);
            let mut cfg = gen_sim_cfg(&mut r, reference.sim.steps.max(200), threads, j % 4 != 0);
            cfg.stale = None; // every shared access in detz is SeqCst or under the lock
            if j % 4 != 0 {
                // lock acquisitions are rare here (one or two per chunk): stall them often, so that a
                // chunk that has finished computing commits late
                cfg.stall_prob = *r.pick(&[0.02, 0.1, 0.3]);
                cfg.stall_prob_store = *r.pick(&[0.1, 0.3]);
                cfg.stall_max_len = *r.pick(&[200u64, 5000, 1 << 40]);
            }
            let out = run_lattice(&spec, Some(threads), cfg.clone());
            if std::env::var("VERIF_TRACE").is_ok() {
                eprintln!(
                    "  sub {j}: threads={threads} strat={} stall=({},{},{}) steps={} stalls={:?} same_det={}",
                    cfg.strategy.name(), cfg.stall_prob, cfg.stall_prob_store, cfg.stall_max_len, out.sim.steps,
                    out.sim.fault_counts.get("stall"),
                    out.out.as_ref().map(|o| o.det == rout.det).unwrap_or(false)
                );
            }
            rep.absorb(&out.sim, false);
            rep.stat(&format!("threads_{threads}"), 1);
            for (oracle, class, message) in judge(Some(&rout), &out, false) {
                rep.violations.push(Violation {
                    property: "C19".into(),
                    oracle,
                    class,
                    message,
                    replay: replay_json(&spec, Some(threads), &cfg, &out, Some(&rout), seed, idx, j + 1),
                });
            }
        }
        rep
    }

    fn replay(&self, replay: &Value) -> Vec<Violation> {
        let spec = Spec::from_json(&replay["scenario"]);
        let threads = replay["threads"].as_u64().map(|t| t as usize);
        let mut cfg = cfg_from_json(&replay["sim"]);
        cfg.replay = Some(plan_from_json(&replay["trace"]));
        let reference = if replay["reference"].is_null() {
            None
        } else {
            Some(Out {
                det: replay["reference"]["det"].as_str().unwrap_or("").to_string(),
                index: replay["reference"]["index"].as_str().map(|s| s.to_string()),
            })
        };
        let out = run_lattice(&spec, threads, cfg);
        judge(reference.as_ref(), &out, false)
            .into_iter()
            .map(|(oracle, class, message)| {
                let mut r = replay.clone();
                r["trace"] = trace_to_json(&out.sim);
                r["observed"]["end"] = json!(out.sim.end.class());
                Violation {
                    property: "C19".into(),
                    oracle,
                    class,
                    message,
                    replay: r,
                }
            })
            .collect()
    }

    fn simplify(&self, replay: &Value) -> Vec<Value> {
        let mut c = vec![];
        if let Some(t) = replay["threads"].as_u64() {
            for nt in [2u64, 3, 4] {
                if nt < t {
                    let mut r = replay.clone();
                    r["threads"] = json!(nt);
                    c.push(r);
                }
            }
        }
        if replay["sim"]["claim_policy"] != json!("in_order") {
            let mut r = replay.clone();
            r["sim"]["claim_policy"] = json!("in_order");
            c.push(r);
        }
        c
    }

    fn components(&self) -> Value {
        json!({
            "real_code": ["yamaquasi::matrix::intsparse::{SparseMat::detz, _detp4 (Wiedemann), crt, compute_lattice_index}", "berlekamp_massey", "arith_gcd::big_gcd"],
            "models": ["rayon pool / par_chunks_exact -> simrayon", "std::sync::RwLock, AtomicBool -> simsync", "OS threads -> coroutines under the simulator's seeded scheduler"],
            "not_decided_here": ["dense det_matz / SmithNormalForm (pure); a sequential result that disagrees with the construction is counted as a statistic, it needs no schedule"],
        })
    }
}
