//! Scenario family `relstore` (C11): concurrent insertion histories into the shared relation
//! store, checked relation by relation against independent arithmetic.

use crate::common::{Family, Report, Tier, Violation};
use crate::oracles::primes::{gen_prime, is_prime, mulmod, powmod};
use crate::oracles::relcheck::verify_relation;
use crate::scen::factor::{gen_sim_cfg, ObsStats};
use crate::simjson::{cfg_from_json, cfg_to_json, plan_from_json, trace_to_json};
use crate::util::{parse_uint, uint_dec};
use bnum::cast::CastFrom;
use serde_json::{json, Value};
use simcore::prng::{derive, Rng};
use simcore::sync::RwLock;
use simcore::{run_sim, RunEnd, SimConfig, SimOutcome};
use std::cell::RefCell;
use std::rc::Rc;
use yamaquasi::fbase::FBase;
use yamaquasi::relations::{final_step, Relation, RelationSet};
use yamaquasi::{Int, Uint, Verbosity};

pub struct RelstoreFamily;

#[derive(Clone, Debug)]
pub struct Op {
    pub rel: Relation,
    pub pq: Option<(u64, u64)>,
}

#[derive(Clone, Debug)]
pub struct Spec {
    pub n: Uint,
    /// the modulus handed to final_step: the sieve's input without its multiplier (n itself for constructed histories)
    pub nfinal: Uint,
    pub p: u128,
    pub q: u128,
    pub fb_size: u32,
    pub maxlarge: u64,
    /// per client: the queue of add operations
    pub clients: Vec<Vec<Op>>,
    pub readers: usize,
    pub shape: String,
}

fn rel_to_json(r: &Relation) -> Value {
    json!({
        "x": uint_dec(&r.x),
        "cofactor": r.cofactor,
        "cyclelen": r.cyclelen,
        "factors": r.factors.iter().map(|&(p, k)| json!([p, k])).collect::<Vec<_>>(),
    })
}
fn rel_from_json(v: &Value) -> Relation {
    Relation {
        x: parse_uint(v["x"].as_str().unwrap()),
        cofactor: v["cofactor"].as_u64().unwrap(),
        cyclelen: v["cyclelen"].as_u64().unwrap_or(1),
        factors: v["factors"]
            .as_array()
            .unwrap()
            .iter()
            .map(|f| (f[0].as_i64().unwrap(), f[1].as_u64().unwrap()))
            .collect(),
    }
}

impl Spec {
    pub fn to_json(&self) -> Value {
        json!({
            "n": uint_dec(&self.n),
            "n_final_step": uint_dec(&self.nfinal),
            "p": self.p.to_string(),
            "q": self.q.to_string(),
            "fb_size": self.fb_size,
            "maxlarge": self.maxlarge,
            "readers": self.readers,
            "shape": self.shape,
            "clients": self.clients.iter().map(|c| c.iter().map(|op| json!({
                "rel": rel_to_json(&op.rel),
                "pq": op.pq.map(|(a, b)| json!([a, b])),
            })).collect::<Vec<_>>()).collect::<Vec<_>>(),
        })
    }
    pub fn from_json(v: &Value) -> Spec {
        Spec {
            n: parse_uint(v["n"].as_str().unwrap()),
            nfinal: parse_uint(v["n_final_step"].as_str().unwrap_or(v["n"].as_str().unwrap())),
            p: v["p"].as_str().unwrap().parse().unwrap(),
            q: v["q"].as_str().unwrap().parse().unwrap(),
            fb_size: v["fb_size"].as_u64().unwrap() as u32,
            maxlarge: v["maxlarge"].as_u64().unwrap(),
            readers: v["readers"].as_u64().unwrap_or(0) as usize,
            shape: v["shape"].as_str().unwrap_or("").to_string(),
            clients: v["clients"]
                .as_array()
                .unwrap()
                .iter()
                .map(|c| {
                    c.as_array()
                        .unwrap()
                        .iter()
                        .map(|op| Op {
                            rel: rel_from_json(&op["rel"]),
                            pq: if op["pq"].is_null() {
                                None
                            } else {
                                Some((op["pq"][0].as_u64().unwrap(), op["pq"][1].as_u64().unwrap()))
                            },
                        })
                        .collect()
                })
                .collect(),
        }
    }
    fn summary(&self) -> Value {
        let ops: usize = self.clients.iter().map(|c| c.len()).sum();
        let (mut c, mut p, mut d) = (0, 0, 0);
        for cl in &self.clients {
            for op in cl {
                if op.rel.cofactor == 1 {
                    c += 1
                } else if op.pq.is_some() {
                    d += 1
                } else {
                    p += 1
                }
            }
        }
        let first: Vec<Value> = self
            .clients
            .iter()
            .flat_map(|c| c.iter())
            .take(3)
            .map(|op| json!({"rel": rel_to_json(&op.rel), "pq": op.pq.map(|(a, b)| json!([a, b]))}))
            .collect();
        json!({
            "n": uint_dec(&self.n), "p": self.p.to_string(), "q": self.q.to_string(),
            "fb_size": self.fb_size, "maxlarge": self.maxlarge,
            "clients": self.clients.len(), "readers": self.readers, "operations": ops,
            "complete": c, "single_large": p, "double_large": d, "shape": self.shape,
            "first_operations": first,
        })
    }
}

// ---------------------------------------------------------------------------------------------
// Construction of valid relations: n = p*q with p = q = 3 (mod 4), so square roots are easy.

fn legendre(a: u128, p: u128) -> i32 {
    let r = powmod(a % p, (p - 1) / 2, p);
    if r == 0 {
        0
    } else if r == 1 {
        1
    } else {
        -1
    }
}

fn sqrt_3mod4(a: u128, p: u128) -> u128 {
    powmod(a % p, (p + 1) / 4, p)
}

fn inv_mod(a: u128, m: u128) -> u128 {
    // m prime
    powmod(a % m, m - 2, m)
}

struct Builder<'a> {
    p: u128,
    q: u128,
    small: &'a [u32],
    /// exponents beyond one LEB128 byte (>= 128) occur in this scenario
    big_exponents: bool,
}

impl Builder<'_> {
    /// A relation x^2 = sign * prod(small^e) * cofactor (mod n), or None if that value is not a
    /// square modulo n for either sign.
    fn make(&self, rng: &mut Rng, exps: &[(u32, u64)], cofactor: u128) -> Option<(Uint, Vec<(i64, u64)>)> {
        let mut vp = cofactor % self.p;
        let mut vq = cofactor % self.q;
        for &(pr, e) in exps {
            vp = mulmod(vp, powmod(pr as u128, e as u128, self.p), self.p);
            vq = mulmod(vq, powmod(pr as u128, e as u128, self.q), self.q);
        }
        if vp == 0 || vq == 0 {
            return None;
        }
        let (lp, lq) = (legendre(vp, self.p), legendre(vq, self.q));
        // -1 is a non-residue modulo both primes
        let neg = if lp == 1 && lq == 1 {
            false
        } else if lp == -1 && lq == -1 {
            true
        } else {
            return None;
        };
        if neg {
            vp = self.p - vp;
            vq = self.q - vq;
        }
        let mut sp = sqrt_3mod4(vp, self.p);
        let mut sq = sqrt_3mod4(vq, self.q);
        debug_assert_eq!(mulmod(sp, sp, self.p), vp);
        if rng.chance(0.5) {
            sp = self.p - sp;
        }
        if rng.chance(0.5) {
            sq = self.q - sq;
        }
        // CRT: x = sp + p * ((sq - sp) / p mod q)
        let pinv = inv_mod(self.p % self.q, self.q);
        let diff = (sq + self.q - sp % self.q) % self.q;
        let t = mulmod(diff, pinv, self.q);
        // 0 <= x < p*q by construction
        let x = Uint::from(sp) + Uint::from(self.p) * Uint::from(t);
        let mut factors: Vec<(i64, u64)> = vec![];
        if neg {
            factors.push((-1, 1));
        }
        for &(pr, e) in exps {
            if e > 0 {
                factors.push((pr as i64, e));
            }
        }
        Some((x, factors))
    }

    fn random_exps(&self, rng: &mut Rng) -> Vec<(u32, u64)> {
        let k = rng.range(1, 6.min(self.small.len() as u64)) as usize;
        let mut v: Vec<(u32, u64)> = vec![];
        for _ in 0..k {
            let pr = *rng.pick(self.small);
            if v.iter().any(|x| x.0 == pr) {
                continue;
            }
            let e = match rng.below(10) {
                0 => 2,
                1 => 3,
                2 => rng.range(4, 17),
                3 if self.big_exponents => rng.range(18, 400),
                _ => 1,
            };
            v.push((pr, e));
        }
        v.sort();
        v
    }

    fn relation(&self, rng: &mut Rng, cofactor: u128) -> Relation {
        let mut tries = 0u64;
        loop {
            tries += 1;
            let exps = self.random_exps(rng);
            if tries % 1000 == 0 && std::env::var("VERIF_TRACE").is_ok() {
                eprintln!("relation: {tries} tries cofactor={cofactor} exps={exps:?}");
            }
            if let Some((x, factors)) = self.make(rng, &exps, cofactor) {
                return Relation {
                    x,
                    cofactor: cofactor as u64,
                    cyclelen: 1,
                    factors,
                };
            }
        }
    }
}

pub fn gen_spec(rng: &mut Rng, tier: Tier) -> Spec {
    let half_bits = match tier {
        Tier::Quick => rng.range(20, 50) as u32,
        Tier::Thorough => {
            if rng.chance(0.3) {
                rng.range(64, 100) as u32
            } else {
                rng.range(20, 63) as u32
            }
        }
    };
    let gp = |rng: &mut Rng, b: u32| loop {
        let p = gen_prime(rng, b);
        if p % 4 == 3 {
            return p;
        }
    };
    if std::env::var("VERIF_TRACE").is_ok() { eprintln!("gen: half_bits={half_bits}"); }
    let p = gp(rng, half_bits);
    if std::env::var("VERIF_TRACE").is_ok() { eprintln!("gen: p={p}"); }
    let q = loop {
        let extra = rng.below(3) as u32;
        let q = gp(rng, half_bits + extra);
        if q != p {
            break q;
        }
    };
    if std::env::var("VERIF_TRACE").is_ok() { eprintln!("gen: q={q}"); }
    let n = Uint::from(p) * Uint::from(q);
    let fb_size = rng.range(16, 48) as u32;
    let fbase = FBase::new(Int::cast_from(n), fb_size);
    // a few factor base primes for the smooth parts (so that cycles outnumber primes)
    let nsmall = rng.range(4, 14.min(fbase.len() as u64)) as usize;
    let mut small: Vec<u32> = (0..fbase.len()).map(|i| fbase.p(i)).filter(|&pr| p % pr as u128 != 0 && q % pr as u128 != 0).collect();
    small.truncate(nsmall.max(2));
    if std::env::var("VERIF_TRACE").is_ok() { eprintln!("gen: p={p} q={q} fb={} bound={} small={small:?}", fbase.len(), fbase.bound()); }
    // a quarter of the scenarios: exponents that need two LEB128 bytes (they also arise by repeated combination
    // along chains of 15 and more double-large-prime relations)
    let big_exponents = rng.chance(0.25);
    let b = Builder { p, q, small: &small, big_exponents };
    // large primes: a small pool above the factor base, so that collisions are frequent
    // large primes range up to 32 bits in real sieves (packed as ULEB128: 3 to 5 bytes)
    // (the top class reaches 2^31..2^32: the encodings of such primes use the last bit of a u32)
    let (maxlarge, lmax_bits): (u64, u64) = *rng.pick(&[(1u64 << 22, 21u64), (1 << 22, 21), (1 << 27, 26), ((1 << 32) - 1, 31), ((1 << 32) - 1, 32)]);
    let npool = rng.range(3, 14) as usize;
    let mut pool: Vec<u64> = vec![];
    while pool.len() < npool {
        let lb = if lmax_bits == 32 && rng.chance(0.5) { rng.range(30, 32) } else { rng.range(17, lmax_bits) } as u32;
        let l = gen_prime(rng, lb) as u64;
        // as in a real sieve, n must be a square modulo every large prime: (l|p) = (l|q)
        let same = legendre(l as u128, p) == legendre(l as u128, q);
        if same && !pool.contains(&l) && l > fbase.bound() as u64 && p != l as u128 && q != l as u128 && l < maxlarge {
            pool.push(l);
        }
    }
    if std::env::var("VERIF_TRACE").is_ok() { eprintln!("gen: pool={pool:?} maxlarge={maxlarge}"); }
    let total_ops = match tier {
        Tier::Quick => rng.range(20, 160),
        Tier::Thorough => rng.range(20, 400),
    } as usize;
    let shape_id = rng.weighted(&[3, 2, 2, 2, 2]);
    let shape = ["mixed", "chain", "star", "cycle_heavy", "doubles_first"][shape_id];
    let mut ops: Vec<Op> = vec![];
    let double = |rng: &mut Rng, a: u64, c: u64| -> Op {
        let rel = b.relation(rng, a as u128 * c as u128);
        Op { rel, pq: Some((a, c)) }
    };
    let single = |rng: &mut Rng, l: u64| -> Op {
        Op { rel: b.relation(rng, l as u128), pq: None }
    };
    match shape {
        "chain" => {
            // l0 - l1 - l2 - ... : doubles along a path, one single at a random place
            for w in pool.windows(2) {
                ops.push(double(rng, w[0], w[1]));
            }
            let k = rng.below(pool.len() as u64) as usize;
            ops.push(single(rng, pool[k]));
        }
        "star" => {
            for &l in &pool[1..] {
                ops.push(double(rng, pool[0], l));
            }
            let k = rng.below(pool.len() as u64) as usize;
            ops.push(single(rng, pool[k]));
        }
        "cycle_heavy" => {
            for i in 0..pool.len() {
                ops.push(double(rng, pool[i], pool[(i + 1) % pool.len()]));
            }
            ops.push(single(rng, pool[0]));
        }
        "doubles_first" => {
            for _ in 0..pool.len() * 2 {
                let a = *rng.pick(&pool);
                let c = *rng.pick(&pool);
                ops.push(double(rng, a, c));
            }
        }
        _ => {}
    }
    while ops.len() < total_ops {
        match rng.weighted(&[4, 5, 5, 1, 2]) {
            0 => ops.push(Op { rel: b.relation(rng, 1), pq: None }),
            1 => {
                let l = *rng.pick(&pool);
                ops.push(single(rng, l));
            }
            2 => {
                let a = *rng.pick(&pool);
                let c = *rng.pick(&pool);
                if a != c || rng.chance(0.3) {
                    // a == c: the "perfect square" double
                    ops.push(double(rng, a, c));
                }
            }
            3 => {
                // p = q double
                let a = *rng.pick(&pool);
                ops.push(double(rng, a, a));
            }
            _ => {
                // duplicate of an earlier relation
                if !ops.is_empty() {
                    let k = rng.below(ops.len() as u64) as usize;
                    ops.push(ops[k].clone());
                }
            }
        }
    }
    if shape == "mixed" || rng.chance(0.5) {
        rng.shuffle(&mut ops);
    } else if shape != "doubles_first" {
        // keep the structured prefix order in half of the cases, shuffle the tail
        let k = (pool.len() + 1).min(ops.len());
        let (_, tail) = ops.split_at_mut(k);
        rng.shuffle(tail);
    }
    // doubles may present their primes in either order
    for op in ops.iter_mut() {
        if let Some((a, c)) = op.pq {
            if rng.chance(0.5) {
                op.pq = Some((c, a));
            }
        }
    }
    let nclients = rng.range(1, 8) as usize;
    let mut clients: Vec<Vec<Op>> = vec![vec![]; nclients];
    for op in ops {
        let k = rng.below(nclients as u64) as usize;
        clients[k].push(op);
    }
    Spec {
        n,
        nfinal: n,
        p,
        q,
        fb_size,
        maxlarge,
        clients,
        readers: rng.below(3) as usize,
        shape: shape.to_string(),
    }
}

/// One scenario in thirty-two replays a *harvested* history: the relations a real sieve (SIQS, MPQS or classical QS
/// with single and double large primes forced on) handed to `RelationSet::add`, recorded by the cfg observer during
/// a single-threaded `factor()` call and re-dealt here to concurrent clients in other orders (shuffled, reversed,
/// doubles first), with some relations duplicated. Unlike the constructed histories these carry the shapes a sieve
/// really produces: dozens of factors, large exponents of small primes, x close to n, the multiplier in n.
pub fn is_harvested_scenario(idx: u64) -> bool {
    idx % 32 == 7
}

pub fn gen_spec_harvested(rng: &mut Rng, tier: Tier) -> Option<Spec> {
    use yamaquasi::relations::verif::AddEvent;
    use yamaquasi::{Algo, Preferences};
    let half = match tier {
        Tier::Quick => rng.range(24, 40) as u32,
        Tier::Thorough => rng.range(24, 52) as u32,
    };
    let p = gen_prime(rng, half);
    let q = loop {
        let extra = rng.below(4) as u32;
        let q = gen_prime(rng, half + extra);
        if q != p {
            break q;
        }
    };
    let n = Uint::from(p) * Uint::from(q);
    let algo = *rng.pick(&[Algo::Siqs, Algo::Siqs, Algo::Mpqs, Algo::Qs]);
    let d = match algo {
        Algo::Qs => yamaquasi::params::qs_fb_size(n.bits(), false),
        Algo::Mpqs => yamaquasi::params::mpqs_fb_size(n.bits(), false),
        _ => yamaquasi::params::factor_base_size(&n),
    }
    .max(24);
    let fb_req = (d * *rng.pick(&[1u32, 1, 2, 3])).min(1200);
    let large_factor = *rng.pick(&[5u64, 20, 100, 400]);
    let use_double = rng.chance(0.75);
    type Ev = (Uint, usize, u64, Relation, Option<(u64, u64)>);
    let log: Rc<RefCell<Vec<Ev>>> = Rc::new(RefCell::new(vec![]));
    let log2 = log.clone();
    simcore::probe::set_observer(Some(Box::new(move |tag, obj| {
        if tag != "relset_add" {
            return;
        }
        if let Some(ev) = obj.downcast_ref::<AddEvent>() {
            let set = unsafe { &*ev.set };
            let mut l = log2.borrow_mut();
            if l.len() < 6000 {
                l.push((set.n, set.fbsize, set.maxlarge, ev.added.clone(), ev.pq));
            }
        }
    })));
    let mut cfg = SimConfig::reference(rng.next_u64());
    cfg.step_cap = 2_000_000;
    cfg.wall_limit_ms = Some(10_000);
    let (sim, _) = run_sim(cfg, move || {
        let mut prefs = Preferences::default();
        prefs.verbosity = Verbosity::Silent;
        prefs.fb_size = Some(fb_req);
        prefs.large_factor = Some(large_factor);
        prefs.use_double = Some(use_double);
        let _ = yamaquasi::factor(n, algo, &prefs);
    });
    simcore::probe::set_observer(None);
    if sim.end != RunEnd::Completed {
        return None;
    }
    let evs = log.borrow();
    let (sn, sfb, sml) = match evs.first() {
        Some(e) => (e.0, e.1, e.2),
        None => return None,
    };
    // the factor base of the replayed store must be the one of the sieve
    let fbase = FBase::new(Int::cast_from(sn), fb_req);
    if fbase.len() != sfb {
        return None;
    }
    let mut ops: Vec<Op> = evs
        .iter()
        .filter(|e| e.0 == sn && e.1 == sfb && e.2 == sml)
        .map(|e| Op { rel: e.3.clone(), pq: e.4 })
        .collect();
    if ops.len() < 8 {
        return None;
    }
    // a prefix of a history is a history: keep scenarios affordable
    let cap = match tier {
        Tier::Quick => rng.range(100, 700),
        Tier::Thorough => rng.range(200, 4000),
    } as usize;
    ops.truncate(cap);
    let order = rng.weighted(&[30, 30, 15, 25]);
    match order {
        0 => {} // sieve order
        1 => {
            // seeded shuffle
            for i in (1..ops.len()).rev() {
                let j = rng.below(i as u64 + 1) as usize;
                ops.swap(i, j);
            }
        }
        2 => ops.reverse(),
        _ => {
            // doubles first, then partials, then complete relations: the longest walks
            ops.sort_by_key(|o| if o.pq.is_some() && o.rel.cofactor != 1 { 0 } else if o.rel.cofactor != 1 { 1 } else { 2 });
        }
    }
    // duplicates
    let ndup = ops.len() / *rng.pick(&[10usize, 20, 50]);
    for _ in 0..ndup {
        let k = rng.below(ops.len() as u64) as usize;
        let at = rng.below(ops.len() as u64 + 1) as usize;
        let o = ops[k].clone();
        ops.insert(at, o);
    }
    // deal to clients in contiguous runs of random length
    let w = rng.range(1, 8) as usize;
    let mut clients: Vec<Vec<Op>> = vec![vec![]; w];
    let mut it = ops.into_iter().peekable();
    while it.peek().is_some() {
        let c = rng.below(w as u64) as usize;
        for _ in 0..rng.range(1, 12) {
            match it.next() {
                Some(o) => clients[c].push(o),
                None => break,
            }
        }
    }
    clients.retain(|c| !c.is_empty());
    Some(Spec {
        n: sn,
        nfinal: n,
        p,
        q,
        fb_size: fb_req,
        maxlarge: sml,
        clients,
        readers: rng.below(3) as usize,
        shape: format!(
            "harvested_{}_{}",
            match algo {
                Algo::Siqs => "siqs",
                Algo::Mpqs => "mpqs",
                _ => "qs",
            },
            ["sieve_order", "shuffled", "reversed", "doubles_first"][order]
        ),
    })
}

pub fn gen_any(rng: &mut Rng, tier: Tier, idx: u64) -> Spec {
    if is_harvested_scenario(idx) {
        if let Some(s) = gen_spec_harvested(rng, tier) {
            return s;
        }
    }
    gen_spec(rng, tier)
}

// ---------------------------------------------------------------------------------------------
// Execution

#[derive(Clone, Debug, Default)]
pub struct StoreOut {
    pub cycles: usize,
    pub divisors: Vec<Uint>,
    pub n_partials: usize,
    pub n_doubles: usize,
    pub n_combined12: usize,
    pub n_cycles: [usize; 8],
}

pub struct RunOut {
    pub sim: SimOutcome,
    pub out: Option<StoreOut>,
    pub obs: ObsStats,
}

fn normalised(f: &[(i64, u64)]) -> Vec<(i64, u64)> {
    let mut v: Vec<(i64, u64)> = f
        .iter()
        .filter_map(|&(p, k)| {
            if p == -1 {
                if k % 2 == 1 {
                    Some((-1, 1))
                } else {
                    None
                }
            } else {
                Some((p, k))
            }
        })
        .collect();
    v.sort();
    v
}

/// Observer with the full set of C11 oracles (R1, R2 incl. decode-equals-original, R3 statistic).
fn install_observer(stats: Rc<RefCell<ObsStats>>) {
    use yamaquasi::relations::verif::AddEvent;
    simcore::probe::set_observer(Some(Box::new(move |tag, obj| {
        if tag != "relset_add" {
            return;
        }
        let Some(ev) = obj.downcast_ref::<AddEvent>() else {
            return;
        };
        let set = unsafe { &*ev.set };
        let mut st = stats.borrow_mut();
        st.adds += 1;
        let mut fail = |st: &mut ObsStats, m: String| {
            if st.failures.len() < 4 {
                st.failures.push(m);
            }
        };
        for r in &set.cycles[ev.cycles_before.min(set.cycles.len())..] {
            st.cycles_checked += 1;
            if let Err(e) = verify_relation(&set.n, r, Some(1)) {
                fail(&mut st, format!("R1 published relation is not a congruence: {e}"));
            }
        }
        // R2: small stores are decoded completely after every add, larger ones around the keys touched
        let full = set.verif_partial_count() <= 48;
        if full {
            for (k, r) in set.verif_partials() {
                st.stored_checked += 1;
                if let Err(e) = verify_relation(&set.n, &r, Some(k)) {
                    fail(&mut st, format!("R2 stored partial {k} decodes to a non-congruence: {e}"));
                }
            }
            for ((a, c), r) in set.verif_doubles() {
                st.stored_checked += 1;
                if let Err(e) = verify_relation(&set.n, &r, Some(a as u64 * c as u64)) {
                    fail(&mut st, format!("R2 stored double ({a},{c}) decodes to a non-congruence: {e}"));
                }
            }
        }
        let c = ev.added.cofactor;
        if c != 1 {
            let mut keys = vec![];
            if let Some((a, b)) = ev.pq {
                keys.push(a);
                keys.push(b);
                let key = if a < b { (a as u32, b as u32) } else { (b as u32, a as u32) };
                if let Some(r) = set.verif_double(key) {
                    st.stored_checked += 1;
                    if let Err(e) = verify_relation(&set.n, &r, Some(a * b)) {
                        fail(&mut st, format!("R2 stored double {key:?} decodes to a non-congruence: {e}"));
                    }
                    if r.x == ev.added.x && normalised(&r.factors) != normalised(&ev.added.factors) {
                        fail(&mut st, format!(
                            "R2 stored double {key:?} decodes to {:?} but {:?} was stored",
                            r.factors, ev.added.factors
                        ));
                    }
                }
            } else {
                keys.push(c);
            }
            for k in keys {
                if let Some(r) = set.verif_partial(k) {
                    st.stored_checked += 1;
                    if let Err(e) = verify_relation(&set.n, &r, Some(k)) {
                        fail(&mut st, format!("R2 stored partial {k} decodes to a non-congruence: {e}"));
                    }
                    if ev.pq.is_none()
                        && r.x == ev.added.x
                        && r.cyclelen == ev.added.cyclelen
                        && normalised(&r.factors) != normalised(&ev.added.factors)
                    {
                        fail(&mut st, format!(
                            "R2 stored partial {k} decodes to {:?} but {:?} was stored",
                            r.factors, ev.added.factors
                        ));
                    }
                }
            }
        }
        if set.verif_check_maps().is_err() {
            st.map_invariant_breaks += 1;
        }
    })));
}

pub fn run_store(spec: &Spec, cfg: SimConfig) -> RunOut {
    let stats = Rc::new(RefCell::new(ObsStats::default()));
    install_observer(stats.clone());
    let s = spec.clone();
    let (sim, out) = run_sim(cfg, move || {
        let fbase = FBase::new(Int::cast_from(s.n), s.fb_size);
        let set = RwLock::new(RelationSet::new(s.n, fbase.len(), s.maxlarge));
        let stack = simcore::worker_stack();
        if s.clients.len() == 1 && s.readers == 0 {
            for op in &s.clients[0] {
                set.write().unwrap().add(op.rel.clone(), op.pq);
            }
        } else {
            let mut closures: Vec<Box<dyn FnOnce() + Send + '_>> = vec![];
            for c in &s.clients {
                let set = &set;
                closures.push(Box::new(move || {
                    for op in c {
                        simcore::sched_point(simcore::OpKind::Client);
                        set.write().unwrap().add(op.rel.clone(), op.pq);
                    }
                }));
            }
            for _ in 0..s.readers {
                let set = &set;
                let fbase = &fbase;
                closures.push(Box::new(move || {
                    for _ in 0..6 {
                        simcore::sched_point(simcore::OpKind::Client);
                        let g = set.read().unwrap();
                        let _ = g.len();
                        let _ = g.gap(fbase);
                    }
                }));
            }
            simcore::task::run_clients(closures, stack);
        }
        let set = set.into_inner().unwrap();
        let (np, nd) = (set.n_partials, set.n_doubles);
        let (nc12, ncyc) = (set.n_combined12, set.n_cycles);
        let cycles = set.into_inner();
        let divisors = if cycles.is_empty() {
            vec![]
        } else {
            final_step(&s.nfinal, &fbase, &cycles, Verbosity::Silent)
        };
        StoreOut {
            cycles: cycles.len(),
            divisors,
            n_partials: np,
            n_doubles: nd,
            n_combined12: nc12,
            n_cycles: ncyc,
        }
    });
    simcore::probe::set_observer(None);
    let obs = stats.borrow().clone();
    RunOut { sim, out, obs }
}

fn judge(spec: &Spec, out: &RunOut) -> Vec<(String, String, String)> {
    let mut v = vec![];
    match &out.sim.end {
        RunEnd::Completed | RunEnd::WallLimit => {}
        RunEnd::Panic { message, location } => v.push((
            if location.contains("relations.rs") { "R4_no_store_assertion" } else { "final_step_no_panic" }.to_string(),
            format!("panic@{location}"),
            message.chars().take(300).collect(),
        )),
        RunEnd::Deadlock(m) => v.push(("terminates".into(), "deadlock".into(), m.chars().take(200).collect())),
        RunEnd::Livelock => v.push(("terminates".into(), "livelock".into(), "step cap exceeded".into())),
    }
    if let Some(f) = out.obs.failures.first() {
        let class = if f.starts_with("R1") {
            "oracle:published_relation_invalid"
        } else {
            "oracle:stored_relation_invalid"
        };
        v.push((f[..2].to_string(), class.into(), f.clone()));
    }
    if let Some(o) = &out.out {
        for d in &o.divisors {
            let ok = !d.is_zero() && !d.is_one() && *d < spec.nfinal && (spec.nfinal % *d).is_zero();
            if !ok {
                v.push((
                    "final_step_proper_divisors".into(),
                    "oracle:bad_divisor".into(),
                    format!("final_step returned {d}, not a divisor d of n={} with 1 < d < n", spec.nfinal),
                ));
                break;
            }
        }
    }
    v
}

fn replay_json(spec: &Spec, cfg: &SimConfig, out: &RunOut, seed: u64, idx: u64, sub: u64) -> Value {
    json!({
        "family": "relstore",
        "property": "C11",
        "verif_seed": seed,
        "scenario_index": idx,
        "sub_run": sub,
        "scenario": spec.to_json(),
        "sim": cfg_to_json(cfg),
        "trace": trace_to_json(&out.sim),
        "observed": {
            "end": out.sim.end.class(),
            "cycles": out.out.as_ref().map(|o| o.cycles),
            "divisors": out.out.as_ref().map(|o| o.divisors.iter().map(uint_dec).collect::<Vec<_>>()),
            "fingerprint": format!("{:016x}", out.sim.fingerprint),
        },
    })
}

impl Family for RelstoreFamily {
    fn name(&self) -> &'static str {
        "relstore"
    }

    fn rule(&self, _prop: &str, tier: Tier) -> String {
        format!(
            "family relstore/C11/{}: base scenario i = (n = p*q with p = q = 3 mod 4 chosen by the generator, a real FBase, a pool of 3-14 large primes, \
             20-{} add operations: complete / single-large / double-large relations constructed from square roots the harness computes itself, in \
             chain/star/cycle/doubles-first/mixed large-prime graphs with duplicates and p=q doubles), dealt to 1-8 simulated client threads plus 0-2 reader threads; \
             (large primes up to 2^32; one scenario in 32 instead replays a harvested history: 100-700 (quick) / up to 4000 (thorough) relations that a real single-threaded SIQS/MPQS/QS run \
             on a 48-86-bit semiprime handed to add(), in sieve order / shuffled / reversed / doubles first, 2-10 % duplicated); \
             one in-order single-client reference history, then {} schedules (random/sticky/PCT/round-robin, stalls before lock acquisitions). \
             Non-trivial = at least two simulated threads runnable at some step or a fault fired; distinct = distinct interleaving fingerprint.",
            tier.name(),
            if tier == Tier::Quick { 160 } else { 400 },
            if tier == Tier::Quick { 8 } else { 24 }
        )
    }

    fn count(&self, _prop: &str, tier: Tier) -> u64 {
        match tier {
            Tier::Quick => 30000,
            Tier::Thorough => 100000,
        }
    }

    fn describe(&self, prop: &str, tier: Tier, seed: u64, idx: u64) -> Value {
        let mut rng = Rng::new(derive(seed, prop, idx, "scenario"));
        gen_any(&mut rng, tier, idx).summary()
    }

    fn run(&self, prop: &str, tier: Tier, seed: u64, idx: u64) -> Report {
        let mut rep = Report::new(idx);
        let mut rng = Rng::new(derive(seed, prop, idx, "scenario"));
        let spec = gen_any(&mut rng, tier, idx);
        rep.sample = spec.summary();
        if spec.shape.starts_with("harvested") {
            rep.stat("scenarios_with_a_harvested_sieve_history", 1);
            rep.stat(&format!("history_{}", spec.shape), 1);
        }
        crate::common::phase(idx, "subruns");
        // sequential reference history: all operations by one client, in dealing order
        let mut seq = spec.clone();
        seq.clients = vec![spec.clients.iter().flat_map(|c| c.iter().cloned()).collect()];
        seq.readers = 0;
        let rcfg = SimConfig::reference(derive(seed, prop, idx, "reference"));
        let reference = run_store(&seq, rcfg.clone());
        rep.absorb(&reference.sim, false);
        for (oracle, class, message) in judge(&seq, &reference) {
            rep.violations.push(Violation {
                property: "C11".into(),
                oracle,
                class,
                message,
                replay: replay_json(&seq, &rcfg, &reference, seed, idx, 0),
            });
        }
        rep.stat("operations", reference.obs.adds);
        rep.stat("relations_checked", reference.obs.cycles_checked + reference.obs.stored_checked);
        if let Some(o) = &reference.out {
            rep.stat("reference_cycles", o.cycles as u64);
            rep.stat("reference_divisors", o.divisors.len() as u64);
        }
        let nsub = if tier == Tier::Quick { 8 } else { 24 };
        let ref_steps = reference.sim.steps.max(100);
        for j in 0..nsub {
            let mut r = Rng::new(derive(seed, prop, idx, "sub") ^ simcore::prng::mix(&[j]));
            let mut cfg = gen_sim_cfg(&mut r, ref_steps * 2, spec.clients.len() + spec.readers, j % 4 != 0);
            cfg.stale = None;
            let out = run_store(&spec, cfg.clone());
            rep.absorb(&out.sim, false);
            rep.stat("operations", out.obs.adds);
            rep.stat("relations_checked", out.obs.cycles_checked + out.obs.stored_checked);
            rep.stat("map_invariant_breaks", out.obs.map_invariant_breaks);
            if let (Some(a), Some(b)) = (&out.out, &reference.out) {
                rep.stat("cycles_total", a.cycles as u64);
                // reach probes: which combination paths of the store were taken
                rep.stat("probe_cycles_of_length_1", a.n_cycles[0] as u64);
                rep.stat("probe_cycles_of_length_2", a.n_cycles[1] as u64);
                rep.stat("probe_cycles_of_length_3", a.n_cycles[2] as u64);
                rep.stat("probe_cycles_of_length_4_or_more", a.n_cycles[3..].iter().sum::<usize>() as u64);
                rep.stat("probe_double_combined_with_one_known_prime", a.n_combined12 as u64);
                rep.stat("probe_partials_seen", a.n_partials as u64);
                rep.stat("probe_doubles_seen", a.n_doubles as u64);
                if a.cycles != b.cycles {
                    rep.stat("cycle_count_differs_from_sequential_history", 1);
                }
                if !a.divisors.is_empty() {
                    rep.stat("histories_yielding_divisors", 1);
                }
            }
            for (oracle, class, message) in judge(&spec, &out) {
                rep.violations.push(Violation {
                    property: "C11".into(),
                    oracle,
                    class,
                    message,
                    replay: replay_json(&spec, &cfg, &out, seed, idx, j + 1),
                });
            }
        }
        rep
    }

    fn replay(&self, replay: &Value) -> Vec<Violation> {
        let spec = Spec::from_json(&replay["scenario"]);
        let mut cfg = cfg_from_json(&replay["sim"]);
        cfg.replay = Some(plan_from_json(&replay["trace"]));
        let out = run_store(&spec, cfg);
        judge(&spec, &out)
            .into_iter()
            .map(|(oracle, class, message)| {
                let mut r = replay.clone();
                r["trace"] = trace_to_json(&out.sim);
                r["observed"]["end"] = json!(out.sim.end.class());
                Violation {
                    property: "C11".into(),
                    oracle,
                    class,
                    message,
                    replay: r,
                }
            })
            .collect()
    }

    fn simplify(&self, replay: &Value) -> Vec<Value> {
        // drop operations (halves, quarters, single ones for short histories), drop clients
        let mut c = vec![];
        let clients = replay["scenario"]["clients"].as_array().cloned().unwrap_or_default();
        if replay["scenario"]["readers"].as_u64().unwrap_or(0) > 0 {
            let mut r = replay.clone();
            r["scenario"]["readers"] = json!(0);
            c.push(r);
        }
        for (ci, cl) in clients.iter().enumerate() {
            let ops = cl.as_array().cloned().unwrap_or_default();
            if ops.is_empty() {
                continue;
            }
            let mut cuts: Vec<(usize, usize)> = vec![(0, ops.len())];
            let h = ops.len() / 2;
            if h > 0 {
                cuts.push((0, h));
                cuts.push((h, ops.len()));
            }
            if ops.len() <= 12 {
                for k in 0..ops.len() {
                    cuts.push((k, k + 1));
                }
            } else {
                let qn = ops.len() / 4;
                for k in 0..4 {
                    cuts.push((k * qn, (k + 1) * qn));
                }
            }
            for (a, b) in cuts {
                let mut keep = ops[..a].to_vec();
                keep.extend_from_slice(&ops[b..]);
                let mut r = replay.clone();
                r["scenario"]["clients"][ci] = json!(keep);
                c.push(r);
            }
        }
        c
    }

    fn components(&self) -> Value {
        json!({
            "real_code": ["yamaquasi::relations::RelationSet (add, combine, walk_doubles, pack/unpack), relations::final_step (+ gf2 kernel_gauss), fbase::FBase"],
            "models": ["std::sync::RwLock -> simsync model", "sieve worker threads -> simulated client threads issuing add()", "OS threads -> coroutines under the simulator's seeded scheduler"],
            "not_run": ["the sieves themselves (they run in the factor family, where the same observer is active)"],
        })
    }
}

#[allow(dead_code)]
fn unused(_: u128) -> bool {
    is_prime(2)
}
