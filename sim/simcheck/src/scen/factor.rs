//! Scenario family `factor`: the public entry point `yamaquasi::factor` under simulated
//! schedules, worker counts, preference knobs and abort instants (C01, C02, C04, C05).

use crate::common::{Family, Report, Tier, Violation};
use crate::oracles::primes::{gen_prime, is_prime, next_prime};
use crate::oracles::relcheck::verify_relation;
use crate::simjson::{cfg_from_json, cfg_to_json, plan_from_json, trace_to_json};
use crate::util::{parse_uint, uint_dec};
use serde_json::{json, Value};
use simcore::prng::{derive, Rng};
use simcore::{
    run_sim, AbortPlan, ClaimPolicy, RunEnd, SimConfig, SimOutcome, StaleCfg, Strategy,
};
use std::cell::RefCell;
use std::rc::Rc;
use yamaquasi::{Algo, Preferences, Uint, Verbosity};

pub struct FactorFamily;

#[derive(Clone, Debug)]
pub struct Spec {
    pub n: Uint,
    /// the primes the generator multiplied, sorted (multiset)
    pub primes: Vec<u128>,
    pub algo: Algo,
    pub fb_size: Option<u32>,
    pub interval_size: Option<u32>,
    pub large_factor: Option<u64>,
    pub use_double: Option<bool>,
    pub shape: String,
}

fn algo_name(a: Algo) -> &'static str {
    match a {
        Algo::Auto => "auto",
        Algo::Rho => "rho",
        Algo::Squfof => "squfof",
        Algo::Qs64 => "qs64",
        Algo::Pm1 => "pm1",
        Algo::Ecm => "ecm",
        Algo::Ecm128 => "ecm128",
        Algo::Qs => "qs",
        Algo::Mpqs => "mpqs",
        Algo::Siqs => "siqs",
    }
}

impl Spec {
    pub fn to_json(&self) -> Value {
        json!({
            "n": uint_dec(&self.n),
            "bits": self.n.bits(),
            "primes": self.primes.iter().map(|p| p.to_string()).collect::<Vec<_>>(),
            "algo": algo_name(self.algo),
            "fb_size": self.fb_size,
            "interval_size": self.interval_size,
            "large_factor": self.large_factor,
            "use_double": self.use_double,
            "shape": self.shape,
        })
    }
    pub fn from_json(v: &Value) -> Spec {
        Spec {
            n: parse_uint(v["n"].as_str().unwrap()),
            primes: v["primes"]
                .as_array()
                .unwrap()
                .iter()
                .map(|p| p.as_str().unwrap().parse::<u128>().unwrap())
                .collect(),
            algo: v["algo"].as_str().unwrap().parse::<Algo>().unwrap(),
            fb_size: v["fb_size"].as_u64().map(|x| x as u32),
            interval_size: v["interval_size"].as_u64().map(|x| x as u32),
            large_factor: v["large_factor"].as_u64(),
            use_double: v["use_double"].as_bool(),
            shape: v["shape"].as_str().unwrap_or("").to_string(),
        }
    }
}

/// Result of `factor()` as seen by the oracles.
#[derive(Clone, Debug, PartialEq)]
pub enum Answer {
    Factors(Vec<Uint>),
    Failure,
}

#[derive(Default, Clone, Debug)]
pub struct ObsStats {
    /// inputs of factor_impl in call order (hook H6), decimal
    pub inputs: Vec<String>,
    pub adds: u64,
    pub cycles_checked: u64,
    pub stored_checked: u64,
    pub map_invariant_breaks: u64,
    pub failures: Vec<String>,
}

pub struct RunOut {
    pub sim: SimOutcome,
    pub answer: Option<Answer>,
    pub obs: ObsStats,
}

/// Install the relation-store observer (C11 oracles R1/R2 inside real sieve runs).
pub fn install_relation_observer(stats: Rc<RefCell<ObsStats>>, check_relations: bool) {
    use yamaquasi::relations::verif::AddEvent;
    simcore::probe::set_observer(Some(Box::new(move |tag, obj| {
        if tag == "factor_impl_input" {
            if let Some(n) = obj.downcast_ref::<Uint>() {
                let mut st = stats.borrow_mut();
                if st.inputs.len() < 256 {
                    st.inputs.push(uint_dec(n));
                }
            }
            return;
        }
        if tag != "relset_add" || !check_relations {
            return;
        }
        let Some(ev) = obj.downcast_ref::<AddEvent>() else {
            return;
        };
        let set = unsafe { &*ev.set };
        let mut st = stats.borrow_mut();
        st.adds += 1;
        // R1: every relation newly published as complete is a true congruence, cofactor 1
        for r in &set.cycles[ev.cycles_before.min(set.cycles.len())..] {
            st.cycles_checked += 1;
            if let Err(e) = verify_relation(&set.n, r, Some(1)) {
                if st.failures.len() < 4 {
                    st.failures.push(format!("R1 published relation is not a congruence: {e}"));
                }
            }
        }
        // R2: the stored (packed) forms touched by this add decode to true congruences
        let c = ev.added.cofactor;
        if c != 1 {
            if let Some(r) = set.verif_partial(c) {
                st.stored_checked += 1;
                if let Err(e) = verify_relation(&set.n, &r, Some(c)) {
                    if st.failures.len() < 4 {
                        st.failures.push(format!("R2 stored partial {c} decodes to a non-congruence: {e}"));
                    }
                }
            }
            if let Some((p, q)) = ev.pq {
                for k in [p, q] {
                    if let Some(r) = set.verif_partial(k) {
                        st.stored_checked += 1;
                        if let Err(e) = verify_relation(&set.n, &r, Some(k)) {
                            if st.failures.len() < 4 {
                                st.failures
                                    .push(format!("R2 stored partial {k} decodes to a non-congruence: {e}"));
                            }
                        }
                    }
                }
                let key = if p < q { (p as u32, q as u32) } else { (q as u32, p as u32) };
                if let Some(r) = set.verif_double(key) {
                    st.stored_checked += 1;
                    if let Err(e) = verify_relation(&set.n, &r, Some(p * q)) {
                        if st.failures.len() < 4 {
                            st.failures
                                .push(format!("R2 stored double {key:?} decodes to a non-congruence: {e}"));
                        }
                    }
                }
            }
        }
        // R3 (statistic only): documented relation between the three maps
        if st.adds % 64 == 0 {
            if set.verif_check_maps().is_err() {
                st.map_invariant_breaks += 1;
            }
        }
    })));
}

pub fn run_factor(
    spec: &Spec,
    threads: Option<usize>,
    with_pred: bool,
    cfg: SimConfig,
    observe: bool,
) -> RunOut {
    let stats = Rc::new(RefCell::new(ObsStats::default()));
    install_relation_observer(stats.clone(), observe);
    let s = spec.clone();
    let (sim, res) = run_sim(cfg, move || {
        let mut prefs = Preferences::default();
        prefs.threads = threads;
        prefs.verbosity = if std::env::var("VERIF_VERBOSE").is_ok() { Verbosity::Info } else { Verbosity::Silent }; // debugging aid
        prefs.should_abort = if with_pred {
            Some(Box::new(simcore::probe::abort_poll))
        } else {
            None
        };
        prefs.fb_size = s.fb_size;
        prefs.interval_size = s.interval_size;
        prefs.large_factor = s.large_factor;
        prefs.use_double = s.use_double;
        match yamaquasi::factor(s.n, s.algo, &prefs) {
            Ok(v) => Answer::Factors(v),
            Err(_) => Answer::Failure,
        }
    });
    simcore::probe::set_observer(None);
    let obs = stats.borrow().clone();
    RunOut {
        sim,
        answer: res,
        obs,
    }
}

// ---------------------------------------------------------------------------------------------
// Generation

fn product(primes: &[u128]) -> Uint {
    let mut n = Uint::ONE;
    for &p in primes {
        n = n * Uint::from(p);
    }
    n
}

fn split_bits(rng: &mut Rng, total: u32, parts: u32, min_bits: u32) -> Vec<u32> {
    // random composition of `total` into `parts` parts each >= min_bits
    let mut v = vec![min_bits; parts as usize];
    let mut rest = total.saturating_sub(min_bits * parts);
    while rest > 0 {
        let k = rng.below(parts as u64) as usize;
        let add = 1 + rng.below(rest.min(8) as u64) as u32;
        v[k] += add;
        rest -= add;
    }
    v
}

/// Build n from primes chosen here, so that the expected factorisation is known.
fn gen_number(rng: &mut Rng, bits: u32) -> (Vec<u128>, String) {
    let bits = bits.max(8);
    let shape = rng.weighted(&[30, 12, 14, 6, 5, 6, 6, 5, 5, 4, 3, 6]);
    let cap = |b: u32| b.clamp(2, 120);
    let (mut primes, name): (Vec<u128>, &str) = match shape {
        0 => {
            let a = bits / 2;
            (vec![gen_prime(rng, cap(a)), gen_prime(rng, cap(bits - a))], "semiprime_balanced")
        }
        1 => {
            let a = rng.range(8, (bits / 3).max(9) as u64) as u32;
            (vec![gen_prime(rng, cap(a)), gen_prime(rng, cap(bits.saturating_sub(a).max(4)))], "semiprime_unbalanced")
        }
        2 => {
            let k = rng.range(3, 6) as u32;
            let k = k.min((bits / 6).max(2));
            let parts = split_bits(rng, bits, k, 5);
            (parts.iter().map(|&b| gen_prime(rng, cap(b))).collect(), "many_primes")
        }
        3 => {
            let k = rng.range(2, 4) as u32;
            let p = gen_prime(rng, cap((bits / k).max(3)));
            (vec![p; k as usize], "prime_power")
        }
        4 => {
            let p = gen_prime(rng, cap((bits / 4).max(3)));
            let q = gen_prime(rng, cap((bits / 4).max(3)));
            (vec![p, p, q, q], "square_of_semiprime")
        }
        5 => {
            let p = gen_prime(rng, cap((bits / 3).max(3)));
            let q = gen_prime(rng, cap((bits - 2 * (bits / 3)).max(3)));
            (vec![p, p, q], "p2q")
        }
        6 => {
            // factors inside the factor base range (< 2^16) times a big cofactor
            let k = rng.range(1, 3) as usize;
            let mut v: Vec<u128> = (0..k).map(|_| { let b = rng_bits(rng, 8, 16); gen_prime(rng, b) }).collect();
            let used: u32 = v.iter().map(|p| 128 - p.leading_zeros()).sum();
            let rest = bits.saturating_sub(used).max(8);
            v.push(gen_prime(rng, cap(rest / 2)));
            v.push(gen_prime(rng, cap(rest - rest / 2)));
            (v, "fbase_range_factors")
        }
        7 => {
            // factors < 200 (stripped by trial division) times a semiprime
            let k = rng.range(1, 4) as usize;
            let mut v: Vec<u128> = (0..k)
                .map(|_| *rng.pick(&crate::oracles::primes::SMALL_PRIMES) as u128)
                .collect();
            let rest = bits.saturating_sub(7 * k as u32).max(8);
            v.push(gen_prime(rng, cap(rest / 2)));
            v.push(gen_prime(rng, cap(rest - rest / 2)));
            (v, "tiny_factors")
        }
        8 => {
            let p = gen_prime(rng, cap((bits / 2).max(3)));
            let q = next_prime(p + 2 * rng.below(50) as u128);
            (vec![p, q], "close_factors")
        }
        9 => (vec![gen_prime(rng, cap(bits))], "prime"),
        11 => {
            // a repeated prime of factor-base size (above the trial-division range) times a semiprime:
            // the sieves then return overlapping / non-coprime divisors
            let pb = rng_bits(rng, 8, 16);
            let p = loop {
                let p = gen_prime(rng, pb);
                if p > 199 {
                    break p;
                }
            };
            let k = if rng.chance(0.25) { 3 } else { 2 };
            let used = k * (128 - p.leading_zeros());
            let rest = bits.saturating_sub(used).max(24);
            let mut v = vec![p; k as usize];
            v.push(gen_prime(rng, cap(rest / 2)));
            v.push(gen_prime(rng, cap(rest - rest / 2)));
            (v, "repeated_fbase_prime")
        }
        _ => {
            // several factors of 20-30 bits: many ECM curves succeed at once
            let k = (bits / 26).clamp(2, 5);
            ((0..k).map(|_| { let b = rng_bits(rng, 20, 30); gen_prime(rng, b) }).collect(), "ecm_friendly")
        }
    };
    primes.sort();
    (primes, name.to_string())
}

/// Inputs for the forced ECM selector: every prime but the largest is small enough for the
/// first ECM levels (pure ECM on a balanced semiprime "may never end", says the code itself).
fn gen_number_ecm(rng: &mut Rng, bits: u32) -> (Vec<u128>, String) {
    let k = rng.range(1, 4) as usize;
    let mut v: Vec<u128> = (0..k)
        .map(|_| {
            let b = rng_bits(rng, 10, 30);
            gen_prime(rng, b)
        })
        .collect();
    let used: u32 = v.iter().map(|p| 128 - p.leading_zeros()).sum();
    if rng.chance(0.7) && bits > used + 8 {
        v.push(gen_prime(rng, (bits - used).clamp(8, 120)));
    }
    if rng.chance(0.15) {
        // repeated small factor
        let p = v[0];
        v.push(p);
    }
    v.sort();
    (v, "ecm_small_factors".to_string())
}

/// Inputs above 190 bits for the automatic strategy: P-1 with its large-input bounds, then the
/// threaded ECM driver (ecm_auto) over and over on the shrinking cofactor. Prime factors stay
/// below 48 bits so that ECM finds all of them and the SIQS fallback never sees a large input.
fn gen_number_auto_large(rng: &mut Rng, bits: u32) -> (Vec<u128>, String) {
    let k = (rng.range(5, 9) as u32).max((bits + 43) / 44);
    let parts = split_bits(rng, bits, k, 20);
    let mut v: Vec<u128> = parts.iter().map(|&b| gen_prime(rng, b.clamp(20, 48))).collect();
    if rng.chance(0.2) {
        // a repeated factor
        let p = v[0];
        v[1] = p;
    }
    v.sort();
    (v, "auto_large_smooth".to_string())
}

/// Inputs of 129-175 bits for the automatic strategy: above 128 bits it uses the pooled ECM driver (ecm_auto)
/// instead of ecm128. One or two factors within ECM's reach, and a cofactor ECM cannot split: a prime power
/// p^2 / p^3, a semiprime for the SIQS fallback, or a single large prime.
fn gen_number_auto_mid(rng: &mut Rng) -> (Vec<u128>, String) {
    let mut v: Vec<u128> = vec![];
    for _ in 0..rng.range(1, 2) {
        let b = rng_bits(rng, 28, 44);
        v.push(gen_prime(rng, b));
    }
    let name = match rng.weighted(&[40, 20, 25, 15]) {
        0 => {
            let b = rng_bits(rng, 43, 56);
            let p = gen_prime(rng, b);
            v.extend([p, p]);
            "auto_mid_q_p2"
        }
        1 => {
            let b = rng_bits(rng, 42, 46);
            let p = gen_prime(rng, b);
            v.extend([p, p, p]);
            "auto_mid_q_p3"
        }
        2 => {
            let b = rng_bits(rng, 46, 56);
            v.push(gen_prime(rng, b));
            let b = rng_bits(rng, 46, 56);
            v.push(gen_prime(rng, b));
            "auto_mid_q_semiprime"
        }
        _ => {
            let b = rng_bits(rng, 100, 120);
            v.push(gen_prime(rng, b));
            "auto_mid_q_prime"
        }
    };
    v.sort();
    (v, name.to_string())
}

fn rng_bits(rng: &mut Rng, lo: u32, hi: u32) -> u32 {
    rng.range(lo as u64, hi as u64) as u32
}

fn default_fb(algo: Algo, n: &Uint) -> u32 {
    match algo {
        Algo::Qs => yamaquasi::params::qs_fb_size(n.bits(), false),
        Algo::Mpqs => yamaquasi::params::mpqs_fb_size(n.bits(), false),
        _ => yamaquasi::params::factor_base_size(n),
    }
}

fn choose_bits(rng: &mut Rng, prop: &str, tier: Tier, algo: Algo) -> u32 {
    let (lo, hi) = match (tier, algo) {
        // selectors with a 64-bit precondition (asserted in factor_impl)
        (_, Algo::Rho | Algo::Squfof) => (16, 60),
        (_, Algo::Qs64) => (24, 60),
        (Tier::Thorough, Algo::Ecm128) => (24, 126),
        (Tier::Quick, Algo::Qs) => (40, 90),
        (Tier::Quick, Algo::Mpqs) => (40, 100),
        (Tier::Quick, Algo::Siqs) => (40, 110),
        (Tier::Quick, Algo::Ecm) => (24, 100),
        (Tier::Quick, _) => (24, 120),
        (Tier::Thorough, Algo::Qs) => (40, 110),
        (Tier::Thorough, Algo::Mpqs) => (40, 128),
        (Tier::Thorough, Algo::Siqs) => (40, 150),
        (Tier::Thorough, Algo::Ecm) => (24, 128),
        (Tier::Thorough, _) => (24, 160),
    };
    // MPQS re-targets several times on mid-size inputs (flag races need several completion checks)
    if algo == Algo::Mpqs && (prop == "C04" || prop == "C02") && rng.chance(0.5) {
        return rng.range(80, hi.min(108) as u64) as u32;
    }
    // contention: small inputs finish within a few polynomials
    if prop == "C04" && rng.chance(0.35) {
        return rng.range(lo as u64, (lo + 30) as u64) as u32;
    }
    // bias towards the lower two thirds (cost grows fast)
    let a = rng.range(lo as u64, hi as u64);
    let b = rng.range(lo as u64, hi as u64);
    if rng.chance(0.6) {
        a.min(b) as u32
    } else {
        a as u32
    }
}

pub fn gen_spec(rng: &mut Rng, prop: &str, tier: Tier) -> Spec {
    // debugging aid (never set by the registered commands): explore one given scenario
    if let Ok(js) = std::env::var("VERIF_SPEC") {
        let v: Value = serde_json::from_str(&js).expect("VERIF_SPEC is not JSON");
        return Spec::from_json(&v);
    }
    let algos = [Algo::Auto, Algo::Siqs, Algo::Mpqs, Algo::Qs, Algo::Ecm];
    let w: [u32; 5] = match prop {
        "C02" => [52, 16, 10, 10, 12],
        "C04" => [18, 40, 14, 10, 18],
        "C05" => [32, 32, 8, 22, 6],
        _ => [34, 32, 8, 20, 6],
    };
    let mut algo = algos[rng.weighted(&w)];
    // C01 quantifies over all ten selectors: the five that have no pool, poll-free or 64-bit only,
    // take part as workload (the absolute C01 oracle judges their single-threaded run too)
    if prop == "C01" && rng.chance(0.12) {
        algo = *rng.pick(&[Algo::Pm1, Algo::Ecm128, Algo::Rho, Algo::Squfof, Algo::Qs64]);
    }
    let mut bits = choose_bits(rng, prop, tier, algo);
    if prop == "C02" && algo != Algo::Auto {
        bits = bits.max(66);
    }
    if (prop == "C05" || prop == "C01") && algo == Algo::Auto && rng.chance(0.2) {
        // above 128 bits the automatic strategy runs threaded ECM (ecm_auto) before SIQS
        bits = rng.range(129, 140) as u32;
    }
    // above 190 bits the automatic strategy uses other P-1 bounds and only the threaded ECM driver
    let auto_large = algo == Algo::Auto && rng.chance(0.06);
    if auto_large {
        bits = rng.range(191, 250) as u32;
    }
    // 129-175 bits: the pooled ECM driver, then a cofactor that needs the perfect-power test or SIQS
    let auto_mid = algo == Algo::Auto && !auto_large && rng.chance(0.08);
    // contention profile of C04: oversized factor base on a mid-size input and nothing else (the
    // sieve then needs several "enough relations?" rounds and ends with fewer relations than
    // factor base primes, the documented normal end state)
    let oversized_profile = prop == "C04" && algo == Algo::Siqs && rng.chance(0.3);
    if oversized_profile {
        bits = rng.range(84, 106) as u32;
    }
    // thorough only: a factor base above 5000 primes makes relations::final_step switch from Gauss to
    // block Lanczos, whose random start block comes from the simulator's thread_rng stream
    let lanczos_profile = !oversized_profile
        && tier == Tier::Thorough
        && (prop == "C04" || prop == "C02")
        && algo == Algo::Siqs
        && rng.chance(0.05);
    if lanczos_profile {
        // below ~145 bits fewer than 5000 distinct primes occur in the relations whatever the factor base
        bits = rng.range(146, 156) as u32;
    }
    let mut tries = 0;
    let (primes, mut shape) = loop {
        tries += 1;
        if tries % 8 == 0 && !oversized_profile && !auto_large && !auto_mid {
            // this size cannot satisfy the constraints below: draw another one
            bits = choose_bits(rng, prop, tier, algo).max(if prop == "C02" && algo != Algo::Auto { 66 } else { 8 });
        }
        let (primes, shape) = if algo == Algo::Ecm {
            gen_number_ecm(rng, bits)
        } else if auto_large {
            gen_number_auto_large(rng, bits)
        } else if auto_mid {
            gen_number_auto_mid(rng)
        } else if lanczos_profile {
            let a = bits / 2;
            (vec![gen_prime(rng, a), gen_prime(rng, bits - a)], "semiprime_balanced".to_string())
        } else {
            gen_number(rng, bits)
        };
        let n = product(&primes);
        // the forced selectors are generated inside their working range for C02; elsewhere
        // the reference gate decides
        if prop == "C02" && algo != Algo::Auto {
            let squarefree = primes.windows(2).all(|w| w[0] != w[1]);
            let big_enough = algo == Algo::Ecm || primes.iter().all(|&p| p >= 1 << 20);
            if !(n.bits() >= 64 && squarefree && big_enough && primes.len() >= 2) {
                continue;
            }
        }
        if n.bits() < 8 {
            continue;
        }
        if matches!(algo, Algo::Rho | Algo::Squfof | Algo::Qs64) && n.bits() > 62 {
            // documented precondition of these selectors (asserted in factor_impl)
            continue;
        }
        if matches!(algo, Algo::Siqs | Algo::Mpqs | Algo::Qs) {
            // keep forced sieves inside a sane range: what remains after trial division by the
            // primes < 200 must have at least 40 bits (tiny inputs make the sieves spin for ever
            // with some knobs: input/configuration-only, C03/C20 territory)
            // (perfect powers are reduced to their root first, so count distinct primes)
            let mut distinct = primes.clone();
            distinct.dedup();
            let rest: u32 = distinct.iter().filter(|&&p| p >= 200).map(|p| 128 - p.leading_zeros()).sum();
            if rest < 42 {
                continue;
            }
        }
        break (primes, shape);
    };
    let mut primes = primes;
    primes.sort();
    let n = product(&primes);
    let mut spec = Spec {
        n,
        primes,
        algo,
        fb_size: None,
        interval_size: None,
        large_factor: None,
        use_double: None,
        shape: String::new(),
    };
    // preference knobs
    let knob_p = match prop {
        "C02" => 0.0,
        "C04" => 0.6,
        "C05" => 0.3,
        _ => 0.5,
    };
    if lanczos_profile {
        spec.fb_size = Some(rng.range(11000, 14000) as u32);
        shape.push_str("+lanczos_final_step");
    } else if oversized_profile {
        let d = default_fb(algo, &spec.n).max(16);
        spec.fb_size = Some((d * *rng.pick(&[4u32, 6, 8, 10])).clamp(64, 20_000));
        shape.push_str("+oversized_fb");
    } else if matches!(algo, Algo::Siqs | Algo::Mpqs | Algo::Qs | Algo::Auto) && rng.chance(knob_p) {
        let d = default_fb(algo, &spec.n).max(16);
        if rng.chance(0.6) {
            let mult = *rng.pick(&[1u32, 2, 2, 4, 4, 8, 8, 0]);
            let fb = if mult == 0 { (d / 2).max(32) } else { (d * mult).max(32) };
            spec.fb_size = Some(fb.min(20_000));
        }
        if rng.chance(0.3) && spec.n.bits() >= 64 {
            spec.interval_size = Some(32768 * *rng.pick(&[1u32, 2, 3, 4, 8]));
        }
        if rng.chance(0.5) {
            spec.large_factor = Some(*rng.pick(&[1u64, 2, 5, 20, 100]));
        }
        if rng.chance(0.4) {
            spec.use_double = Some(rng.chance(0.7));
            if spec.use_double == Some(true) && spec.large_factor.is_none() {
                spec.large_factor = Some(*rng.pick(&[5u64, 20, 100]));
            }
        }
        shape.push_str("+knobs");
    }
    spec.shape = shape;
    spec
}

// ---------------------------------------------------------------------------------------------
// Sub-run configuration (schedule / fault space)

fn gen_threads(rng: &mut Rng, prop: &str) -> Option<usize> {
    let opts: [Option<usize>; 9] = [
        Some(2),
        Some(3),
        Some(4),
        Some(6),
        Some(8),
        Some(16),
        Some(0),
        Some(1),
        None,
    ];
    let w: [u32; 9] = match prop {
        "C02" => [3, 2, 3, 2, 2, 2, 1, 1, 1],
        _ => [5, 2, 5, 1, 2, 1, 1, 1, 0],
    };
    opts[rng.weighted(&w)]
}

pub fn gen_sim_cfg(rng: &mut Rng, ref_steps: u64, workers_hint: usize, faults: bool) -> SimConfig {
    let mut c = SimConfig::reference(rng.next_u64());
    c.seed_fault = rng.next_u64();
    c.seed_rng = rng.next_u64();
    c.seed_fs = rng.next_u64();
    c.seed_claim = rng.next_u64();
    c.strategy = match rng.weighted(&[2, 2, 1, 2, 2, 2, 1]) {
        0 => Strategy::Random,
        1 => Strategy::Sticky(0.9),
        2 => Strategy::Sticky(0.99),
        3 => Strategy::Pct(1),
        4 => Strategy::Pct(2),
        5 => Strategy::Pct(3),
        _ => Strategy::RoundRobin(rng.range(1, 20)),
    };
    // PCT change points are drawn in [1, expected_steps]: threaded runs are longer than the reference by a
    // factor that depends on the scenario, so the horizon is log-uniform in [ref/2, ref * 4 * workers]
    let hi = (4 * workers_hint.max(1)) as f64;
    let u = (0.5f64.ln() + rng.f64() * (hi.ln() - 0.5f64.ln())).exp();
    c.expected_steps = ((ref_steps as f64 * u) as u64).max(50);
    c.claim_policy = *rng.pick(&[ClaimPolicy::InOrder, ClaimPolicy::Halving, ClaimPolicy::Halving, ClaimPolicy::RandomPerm]);
    c.num_threads_default = rng.range(1, 16) as usize;
    if faults {
        if rng.chance(0.5) {
            c.stall_prob = *rng.pick(&[0.0, 0.0002, 0.001, 0.005]);
            c.stall_prob_store = *rng.pick(&[0.05, 0.2, 0.5]);
            // the last value means: until every other thread is blocked or finished
            c.stall_max_len = *rng.pick(&[50u64, 500, 5000, 1 << 40]);
        }
        if rng.chance(0.5) {
            c.slow_max = *rng.pick(&[4u64, 8]);
        }
        if rng.chance(0.4) {
            c.stale = Some(StaleCfg {
                prob: *rng.pick(&[0.05, 0.2, 0.5]),
                max_consecutive: rng.range(2, 6) as u32,
            });
        }
    }
    c.step_cap = 50 * ref_steps.max(1000) * workers_hint.max(1) as u64 + 3_000_000;
    c
}

// ---------------------------------------------------------------------------------------------
// Oracles

const PRODUCT_GUARDS: [&str; 3] = ["src/lib.rs", "assertion `left == right` failed", "src/relations.rs"];

/// C01 oracle on a returned value.
pub fn check_c01(spec: &Spec, ans: &Answer) -> Result<(), String> {
    match ans {
        Answer::Failure => Ok(()),
        Answer::Factors(list) => {
            if spec.n.is_zero() {
                return if list.len() == 1 && list[0].is_zero() { Ok(()) } else { Err("n=0 must yield [0]".into()) };
            }
            if spec.n.is_one() {
                return if list.is_empty() { Ok(()) } else { Err("n=1 must yield []".into()) };
            }
            let mut prod = Uint::ONE;
            for f in list {
                if f.is_zero() || f.is_one() {
                    return Err(format!("factor list contains {f}"));
                }
                // guard against wrap-around: every factor must divide n exactly
                if !(spec.n % *f).is_zero() {
                    return Err(format!("{f} is reported as a factor but does not divide n"));
                }
                prod = prod * *f;
            }
            if prod != spec.n {
                return Err(format!("product of returned factors is {prod}, not n"));
            }
            if !list.windows(2).all(|w| w[0] <= w[1]) {
                return Err("factor list is not sorted".into());
            }
            Ok(())
        }
    }
}

/// Is the answer exactly the constructed prime multiset?
pub fn is_complete(spec: &Spec, ans: &Answer) -> bool {
    match ans {
        Answer::Failure => false,
        Answer::Factors(list) => {
            list.len() == spec.primes.len()
                && list.iter().zip(&spec.primes).all(|(a, &b)| *a == Uint::from(b))
        }
    }
}

fn in_working_range(spec: &Spec) -> bool {
    if spec.algo == Algo::Auto {
        return true;
    }
    let squarefree = spec.primes.windows(2).all(|w| w[0] != w[1]);
    let big_enough = spec.algo == Algo::Ecm || spec.primes.iter().all(|&p| p >= 1 << 20);
    spec.n.bits() >= 64 && squarefree && big_enough && spec.primes.len() >= 2
}

fn answer_json(a: &Option<Answer>) -> Value {
    match a {
        None => Value::Null,
        Some(Answer::Failure) => json!("FactoringFailure"),
        Some(Answer::Factors(l)) => json!(l.iter().map(uint_dec).collect::<Vec<_>>()),
    }
}

fn is_product_guard(loc: &str, msg: &str) -> bool {
    // check_factors (lib.rs), residue.is_one() (lib.rs), try_factor p*q==n (relations.rs)
    let file = loc.rsplit_once(':').map(|x| x.0).unwrap_or(loc);
    (file.ends_with("src/lib.rs") && (msg.contains("left == right") || msg.contains("residue.is_one()")))
        || (file.ends_with("src/relations.rs") && msg.contains("p * q == *n"))
}

pub struct SubCtx<'a> {
    pub prop: &'a str,
    pub spec: &'a Spec,
    pub reference: &'a RunOut,
    pub ref_complete: bool,
    pub threads: Option<usize>,
    pub with_pred: bool,
    pub cfg: &'a SimConfig,
    pub seed: u64,
    pub idx: u64,
    pub sub: u64,
    pub is_reference: bool,
}

/// Bit sizes of the composite entries of an answer (FactoringFailure = n itself unsplit).
fn unsplit_bits(spec: &Spec, ans: &Option<Answer>) -> Vec<u32> {
    match ans {
        None => vec![],
        Some(Answer::Failure) => vec![spec.n.bits()],
        Some(Answer::Factors(l)) => l
            .iter()
            .filter(|f| !spec.primes.iter().any(|&p| Uint::from(p) == **f))
            .map(|f| f.bits())
            .collect(),
    }
}

fn replay_json(ctx: &SubCtx, out: &RunOut) -> Value {
    let ub = unsplit_bits(ctx.spec, &out.answer);
    let all_small = !ub.is_empty() && ub.iter().all(|&b| b < 40);
    let mut v = replay_json_inner(ctx, out);
    v["observed"]["unsplit_composite_bits"] = json!(ub);
    // forced sieve selectors are documented as tested on 40-330 bits only (README)
    v["observed"]["all_unsplit_entries_below_40_bits"] = json!(all_small);
    v
}

fn replay_json_inner(ctx: &SubCtx, out: &RunOut) -> Value {
    json!({
        "family": "factor",
        "property": ctx.prop,
        "verif_seed": ctx.seed,
        "scenario_index": ctx.idx,
        "sub_run": ctx.sub,
        "scenario": ctx.spec.to_json(),
        "threads": ctx.threads,
        "with_abort_predicate": ctx.with_pred,
        "sim": cfg_to_json(ctx.cfg),
        "trace": trace_to_json(&out.sim),
        "reference": {
            "end": ctx.reference.sim.end.class(),
            "answer": answer_json(&ctx.reference.answer),
            "complete": ctx.ref_complete,
            "steps": ctx.reference.sim.steps,
            "polls": ctx.reference.sim.polls,
        },
        "observed": {
            "end": out.sim.end.class(),
            "answer": answer_json(&out.answer),
            "steps": out.sim.steps,
            "polls": out.sim.polls,
            "flip_step": out.sim.flip_step,
            "flip_poll": out.sim.flip_poll,
            "units_after_flip": out.sim.units_after_flip,
            "live_at_flip": out.sim.live_at_flip,
            "fingerprint": format!("{:016x}", out.sim.fingerprint),
        },
    })
}

/// Evaluate every oracle of `prop` on one executed run. Returns (oracle, class, message).
pub fn judge(ctx: &SubCtx, out: &RunOut) -> Vec<(String, String, String)> {
    let mut v: Vec<(String, String, String)> = vec![];
    let prop = ctx.prop;
    let aborted = out.sim.flip_step.is_some();
    match &out.sim.end {
        RunEnd::Completed => {}
        RunEnd::Panic { message, location } => {
            let short: String = message.chars().take(300).collect();
            let guard = is_product_guard(location, message);
            match prop {
                "C01" => {
                    // only the library's own product guards tripping under a schedule/abort
                    if guard {
                        v.push(("product_guard_tripped".into(), format!("panic@{location}"), short));
                    }
                }
                "C02" => {}
                "C04" => v.push(("S2_no_panic".into(), format!("panic@{location}"), short)),
                "C05" => v.push(("A2_no_panic".into(), format!("panic@{location}"), short)),
                "C11" => {}
                _ => {}
            }
            let _ = PRODUCT_GUARDS;
        }
        RunEnd::Deadlock(m) => {
            let short: String = m.chars().take(300).collect();
            match prop {
                "C04" => v.push(("S1_terminates".into(), "deadlock".into(), short)),
                "C05" => v.push(("A2_terminates".into(), "deadlock".into(), short)),
                _ => {}
            }
        }
        RunEnd::Livelock => match prop {
            "C04" => v.push(("S1_terminates".into(), "livelock".into(), format!("step cap {} exceeded", ctx.cfg.step_cap))),
            "C05" => v.push(("A5_bounded_after_flip".into(), "livelock".into(), format!("step cap {} exceeded", ctx.cfg.step_cap))),
            _ => {}
        },
        RunEnd::WallLimit => {}
    }
    if let Some(ans) = &out.answer {
        // C01 oracle (also S3 of C04 and A1 of C05)
        if let Err(e) = check_c01(ctx.spec, ans) {
            let (o, c) = match prop {
                "C01" => ("product_sorted_no_units", "oracle:wrong_factor_list"),
                "C04" => ("S3_valid_factorization", "oracle:wrong_factor_list"),
                "C05" => ("A1_consistent_answer", "oracle:wrong_factor_list"),
                _ => ("", ""),
            };
            if !o.is_empty() {
                v.push((o.into(), c.into(), e));
            }
        }
        // completeness. When relations::final_step went through block Lanczos (more than 5000 matrix columns), whether a
        // divisor is found depends on the random start block: the library's kernel_lanczos returns no vector at all for a
        // good fraction of start blocks on some matrices (DESIGN 10.4), single-threaded too. Completeness is then not a
        // function of the schedule and is not judged (the absolute oracles still are).
        let lanczos_used = out.sim.rng_draws > 0 || ctx.reference.sim.rng_draws > 0;
        let complete = is_complete(ctx.spec, ans) || lanczos_used;
        if prop == "C02" && !ctx.with_pred && in_working_range(ctx.spec) && !complete {
            v.push((
                "complete_prime_factorization".into(),
                "oracle:incomplete".into(),
                format!("returned {} but the constructed primes are {:?}", answer_json(&out.answer), ctx.spec.primes),
            ));
        }
        if prop == "C04" && !aborted && ctx.ref_complete && !complete && !ctx.is_reference {
            v.push((
                "S4_complete_when_reference_complete".into(),
                "oracle:incomplete_vs_reference".into(),
                format!("single-threaded run returned the complete factorisation, this run returned {}", answer_json(&out.answer)),
            ));
        }
    }
    // relation observer (S5 / C11 inside real sieves)
    if (prop == "C04" || prop == "C11") && !out.obs.failures.is_empty() {
        v.push((
            if prop == "C04" { "S5_relations_valid".into() } else { "R1R2_in_sieve".into() },
            "oracle:bad_relation".into(),
            out.obs.failures[0].clone(),
        ));
    }
    if prop == "C05" {
        if let Some(a3) = out.sim.a3_violations.first() {
            v.push(("A3_no_new_unit_after_true".into(), "oracle:unit_after_abort_seen".into(), a3.clone()));
        }
        if aborted && out.sim.units_after_flip > out.sim.live_at_flip as u64 {
            v.push((
                "A4_units_after_flip_bounded".into(),
                "oracle:too_many_units_after_flip".into(),
                format!(
                    "{} gated work units began after the abort flipped at step {:?}, but only {} simulated threads were alive then",
                    out.sim.units_after_flip, out.sim.flip_step, out.sim.live_at_flip
                ),
            ));
        }
    }
    v
}

/// Single-threaded, fault-free run of the same selector and preferences on a sub-input.
fn sub_reference(spec: &Spec, n: Uint, with_pred: bool) -> RunOut {
    let mut s2 = spec.clone();
    s2.n = n;
    let mut cfg = SimConfig::reference(0x5b5b_5b5b);
    cfg.step_cap = REF_STEP_CAP;
    cfg.wall_limit_ms = Some(8_000);
    run_factor(&s2, None, with_pred, cfg, false)
}

fn all_entries_prime(ans: &Option<Answer>) -> bool {
    match ans {
        Some(Answer::Factors(l)) => l.iter().all(|f| f.bits() <= 127 && is_prime(u128_of(f))),
        _ => false,
    }
}

/// Sub-call reference gate (C04 only). A threaded run reaches, through the recursion of factor_impl, inputs the
/// single-threaded reference run never saw (the cofactors depend on which divisors were found). If the failing
/// sub-input also fails in a single-threaded, fault-free call with the same selector and preferences, the failure
/// needs no schedule: it is input/configuration-only (C03/C20 territory) and is counted, not judged.
/// Returns Some(reason) when the finding is input-only.
fn input_only(ctx: &SubCtx, out: &RunOut, oracle: &str) -> Option<String> {
    if ctx.prop != "C04" || ctx.is_reference {
        return None;
    }
    if oracle.starts_with("S4") {
        // every unsplit entry must be splittable single-threaded, else the incompleteness is input-only
        let Some(Answer::Factors(l)) = &out.answer else {
            // FactoringFailure: n itself unsplit although the reference run split it: schedule-dependent
            return None;
        };
        let unsplit: Vec<Uint> = l
            .iter()
            .filter(|f| !ctx.spec.primes.iter().any(|&p| Uint::from(p) == **f))
            .copied()
            .collect();
        for c in &unsplit {
            let r = sub_reference(ctx.spec, *c, ctx.with_pred);
            let ok = r.sim.end == RunEnd::Completed && all_entries_prime(&r.answer);
            if ok {
                return None; // single-threaded splits it completely: the threaded run should have, too
            }
        }
        return Some(format!(
            "the unsplit entries {:?} are not split by a single-threaded call with the same selector and preferences either",
            unsplit.iter().map(uint_dec).collect::<Vec<_>>()
        ));
    }
    if oracle.starts_with("S2") || oracle.starts_with("S1") {
        // the sub-input in progress when the run died: the last input of factor_impl that the reference never saw
        let fresh: Vec<&String> = out.obs.inputs.iter().filter(|i| !ctx.reference.obs.inputs.contains(i)).collect();
        for i in fresh.iter().rev().take(4) {
            let n = parse_uint(i);
            let r = sub_reference(ctx.spec, n, ctx.with_pred);
            if r.sim.end != RunEnd::Completed {
                return Some(format!(
                    "a single-threaded call with the same selector and preferences on the sub-input {} ends the same way ({})",
                    i,
                    r.sim.end.class()
                ));
            }
        }
        return None;
    }
    None
}

fn push_violations(rep: &mut Report, ctx: &SubCtx, out: &RunOut) {
    for (oracle, class, message) in judge(ctx, out) {
        if let Some(why) = input_only(ctx, out, &oracle) {
            rep.stat("failures_of_a_sub_call_that_are_input_only", 1);
            if rep.stats.get("failures_of_a_sub_call_that_are_input_only").copied().unwrap_or(0) <= 1 {
                simcore::probe::note(why.clone());
            }
            rep.stat(&format!("input_only_{}", class.replace(|c: char| !c.is_ascii_alphanumeric(), "_").chars().take(48).collect::<String>()), 1);
            continue;
        }
        rep.violations.push(Violation {
            property: ctx.prop.to_string(),
            oracle,
            class,
            message,
            replay: replay_json(ctx, out),
        });
    }
}

fn subruns(prop: &str, tier: Tier) -> u64 {
    match (prop, tier) {
        ("C04", Tier::Quick) => 16,
        ("C04", Tier::Thorough) => 48,
        ("C01", Tier::Quick) => 8,
        ("C01", Tier::Thorough) => 16,
        ("C02", Tier::Quick) => 8,
        ("C02", Tier::Thorough) => 16,
        ("C05", Tier::Quick) => 12,
        ("C05", Tier::Thorough) => 32,
        _ => 8,
    }
}

const REF_STEP_CAP: u64 = 600_000;

/// C04 only: scenario indices that run concurrent callers on one shared `Preferences`.
pub fn is_multicaller_scenario(prop: &str, idx: u64) -> bool {
    prop == "C04" && idx % 8 == 3 && std::env::var("VERIF_SPEC").is_err()
}

/// C04 only: scenario indices that run the class-group sieve on a pool.
pub fn is_classgroup_threads_scenario(prop: &str, idx: u64) -> bool {
    prop == "C04" && idx % 16 == 6 && std::env::var("VERIF_SPEC").is_err()
}

/// C05 only: scenario indices with concurrent callers sharing one `Preferences` and its abort callback.
pub fn is_multicaller_abort_scenario(prop: &str, idx: u64) -> bool {
    prop == "C05" && idx % 16 == 9 && std::env::var("VERIF_SPEC").is_err()
}

/// C05 only: scenario indices that abort `classgroup::classgroup` instead of `factor`.
pub fn is_classgroup_abort_scenario(prop: &str, idx: u64) -> bool {
    prop == "C05" && idx % 8 == 5
}

impl Family for FactorFamily {
    fn name(&self) -> &'static str {
        "factor"
    }

    fn rule(&self, prop: &str, tier: Tier) -> String {
        format!(
            "family factor/{prop}/{}: {}base scenario i = (n built from generator-chosen primes in 12 shapes, plus 129-175+-bit (ECM-sized factors times p^2 / p^3 / semiprime / prime) and 191-250-bit smooth inputs for auto, selector in \
             {{auto,siqs,mpqs,qs,ecm}}, randomised fb_size/interval_size/large_factor/use_double) drawn from \
             PRNG(VERIF_SEED,{prop},i){}; for each, one single-threaded fault-free reference run, then {} simulated runs \
             varying worker count (1..16, machine default), claim policy, scheduling strategy (random/sticky/PCT1-3/round-robin), \
             stall faults, slow workers, bounded-stale Relaxed loads{}. A run is non-trivial if at some step at least two \
             simulated threads were runnable or a fault fired; distinct = distinct rolling hash of (chosen thread, pending operation kind) over all steps.",
            tier.name(),
            match prop {
                "C04" => "[one scenario in eight (index = 3 mod 8) is of another kind: 2-3 concurrent caller threads run factor() on ONE shared &Preferences, each call with its own pool, a share of the callers on >128-bit inputs with a P-1-smooth factor; references = sequential single-threaded executions of the same calls with the P-1 latch unset and set; 12 (quick) / 32 (thorough) schedules each; one scenario in sixteen (index = 6 mod 16) runs classgroup::classgroup with 2-16 workers on the C18 workload and judges termination and panics of the shared CRelationSet / the sieve driver only] ",
                "C05" => "[one scenario in eight (index = 5 mod 8) aborts classgroup::classgroup instead: fundamental discriminants of 33-96 bits (112 thorough), every poll instant single-threaded, then 12 (quick) / 32 (thorough) runs abort@poll/time/region x 2-16 workers x schedule; judged once an evaluation of the predicate has answered true; one scenario in sixteen (index = 9 mod 16) runs 2-3 concurrent factor() callers that share one &Preferences and therefore the abort callback] ",
                _ => "",
            },
            if prop == "C01" {
                " (C01 only: 12 % of the scenarios use one of the selectors pm1, ecm128, rho, squfof, qs64, which have no schedule surface and are workload only)"
            } else {
                ""
            },
            subruns(prop, tier),
            if prop == "C05" || prop == "C01" {
                ", and abort instants (every poll-distinguishable instant single-threaded; abort@poll/abort@time x schedule multi-threaded)"
            } else {
                ""
            }
        )
    }

    fn count(&self, prop: &str, tier: Tier) -> u64 {
        match (prop, tier) {
            ("C04", Tier::Quick) => 2000,
            ("C04", Tier::Thorough) => 12000,
            ("C01", Tier::Quick) => 480,
            ("C01", Tier::Thorough) => 4000,
            ("C02", Tier::Quick) => 3000,
            ("C02", Tier::Thorough) => 24000,
            ("C05", Tier::Quick) => 400,
            ("C05", Tier::Thorough) => 3000,
            _ => 100,
        }
    }

    fn run(&self, prop: &str, tier: Tier, seed: u64, idx: u64) -> Report {
        if is_classgroup_abort_scenario(prop, idx) {
            // C05 is anchored in classgroup.rs too: one scenario in eight aborts classgroup()
            return crate::scen::clsabort::run_c05(tier, seed, idx);
        }
        if is_multicaller_abort_scenario(prop, idx) {
            // one scenario in sixteen: concurrent callers sharing the abort callback
            return crate::scen::multicaller::run_c05(tier, seed, idx);
        }
        if is_multicaller_scenario(prop, idx) {
            // C04: one scenario in eight runs several concurrent callers on one shared Preferences
            return crate::scen::multicaller::run_c04(tier, seed, idx);
        }
        if is_classgroup_threads_scenario(prop, idx) {
            // C04 is anchored in classgroup.rs too: one scenario in sixteen runs the class-group sieve on a pool
            return crate::scen::clsthreads::run_c04(tier, seed, idx);
        }
        let mut rep = Report::new(idx);
        let mut rng = Rng::new(derive(seed, prop, idx, "scenario"));
        let spec = gen_spec(&mut rng, prop, tier);
        rep.sample = spec.to_json();
        rep.stat(&format!("selector_{}", algo_name(spec.algo)), 1);
        if spec.n.bits() > 190 {
            rep.stat("inputs_above_190_bits", 1);
        }
        let need_pred = prop == "C05" || prop == "C01";
        // reference run: single-threaded, no abort, default schedule
        let mut rcfg = SimConfig::reference(derive(seed, prop, idx, "reference"));
        rcfg.step_cap = REF_STEP_CAP;
        rcfg.wall_limit_ms = Some(match tier {
            Tier::Quick => 8_000,
            Tier::Thorough => 30_000,
        });
        crate::common::phase(idx, "reference");
        let reference = run_factor(&spec, None, need_pred, rcfg.clone(), prop == "C04" || prop == "C11");
        rep.absorb(&reference.sim, false);
        if std::env::var("VERIF_TRACE").is_ok() {
            eprintln!("  reference: steps={} polls={} end={}", reference.sim.steps, reference.sim.polls, reference.sim.end.class());
        }
        match &reference.sim.end {
            RunEnd::Completed => {}
            other => {
                // input/configuration-only failure: outside the simulated slice (C03/C20)
                rep.reference_failed = Some(format!("{}: {}", other.class(), match other {
                    RunEnd::Panic { message, .. } => message.chars().take(120).collect::<String>(),
                    _ => String::new(),
                }));
                return rep;
            }
        }
        let ref_complete = reference
            .answer
            .as_ref()
            .map(|a| is_complete(&spec, a))
            .unwrap_or(false);
        rep.stat(if ref_complete { "reference_complete" } else { "reference_incomplete" }, 1);
        // the absolute oracles also judge the baseline run
        {
            let ctx = SubCtx {
                prop,
                spec: &spec,
                reference: &reference,
                ref_complete,
                threads: None,
                with_pred: need_pred,
                cfg: &rcfg,
                seed,
                idx,
                sub: 0,
                is_reference: true,
            };
            push_violations(&mut rep, &ctx, &reference);
        }
        crate::common::phase(idx, "subruns");
        let ref_steps = reference.sim.steps;
        let ref_polls = reference.sim.polls;
        let mut nsub = subruns(prop, tier);
        if spec.algo == Algo::Mpqs {
            // a threaded MPQS call drains a 100 000-item range (200 000 steps, 30-100 ms)
            nsub = nsub.min(16);
        }
        if ref_steps > 20_000 {
            // expensive scenario (deterministic criterion): fewer schedules
            nsub = nsub.min(4);
        }
        if spec.algo == Algo::Ecm && (prop == "C05" || prop == "C01") {
            nsub = nsub.min(if tier == Tier::Quick { 3 } else { 8 });
        }
        if matches!(spec.algo, Algo::Pm1 | Algo::Rho | Algo::Squfof | Algo::Qs64) {
            // no pool, no poll, no knob: the schedule space is a point
            nsub = nsub.min(2);
        }
        let mut sub_id = 0u64;
        // C05 / C01: exhaustive enumeration of the poll-distinguishable flip instants, single-threaded
        if prop == "C05" || prop == "C01" {
            let p = ref_polls;
            let instants: Vec<u64> = if spec.algo == Algo::Ecm {
                // an aborted pure-ECM call still walks all nine B1 levels and builds each prime
                // table (seconds of real time, no scheduling point): a few instants only
                let mut v = match tier {
                    Tier::Quick => vec![1, p / 2 + 1],
                    Tier::Thorough => vec![1, 2, p / 3 + 1, p / 2 + 1, p, p + 1],
                };
                v.sort();
                v.dedup();
                v
            } else if prop == "C01" {
                // C01 samples a few instants only (C05 owns the enumeration)
                let mut v = vec![1, p / 2 + 1, p + 1];
                v.dedup();
                v
            } else if p + 1 <= 400 {
                (1..=p + 1).collect()
            } else {
                let mut v: Vec<u64> = (1..=100).collect();
                let mut r2 = Rng::new(derive(seed, prop, idx, "instants"));
                for _ in 0..200 {
                    v.push(r2.range(101, p - 100));
                }
                v.extend(p - 99..=p + 1);
                v.sort();
                v.dedup();
                v
            };
            rep.stat("single_thread_flip_instants", instants.len() as u64);
            rep.stat("single_thread_polls_in_reference", p);
            for k in instants {
                sub_id += 1;
                let mut cfg = SimConfig::reference(derive(seed, prop, idx, "enum"));
                cfg.abort = AbortPlan::AtPoll(k);
                cfg.step_cap = 50 * ref_steps.max(1000) + 3_000_000;
                let out = run_factor(&spec, None, true, cfg.clone(), false);
                rep.absorb(&out.sim, true);
                if out.sim.flip_step.is_some() {
                    rep.stat("aborted_runs", 1);
                    if let Some(Answer::Factors(l)) = &out.answer {
                        if l.iter().any(|f| f.bits() <= 127 && !is_prime(u128_of(f)) ) {
                            rep.stat("aborted_runs_with_composite_entries", 1);
                        }
                    }
                }
                let ctx = SubCtx {
                    prop,
                    spec: &spec,
                    reference: &reference,
                    ref_complete,
                    threads: None,
                    with_pred: true,
                    cfg: &cfg,
                    seed,
                    idx,
                    sub: sub_id,
                    is_reference: false,
                };
                push_violations(&mut rep, &ctx, &out);
            }
        }
        // seeded search over worker count x schedule x faults (x abort instant)
        for j in 0..nsub {
            sub_id += 1;
            let mut r = Rng::new(derive(seed, prop, idx, "sub") ^ simcore::prng::mix(&[j]));
            let threads = gen_threads(&mut r, prop);
            let workers = match threads {
                None | Some(1) => 1,
                Some(0) => 8,
                Some(t) => t,
            };
            let fault_free = j % 4 == 0;
            let mut cfg = gen_sim_cfg(&mut r, ref_steps, workers, !fault_free);
            if spec.algo == Algo::Mpqs && r.chance(0.7) {
                cfg.claim_policy = ClaimPolicy::InOrder;
            }
            if spec.algo == Algo::Mpqs && cfg.stall_prob_store > 0.0 && r.chance(0.5) {
                // MPQS re-decides completion from flags that any worker may overwrite: hold a worker
                // between "value computed" and "value published" until the others are done
                cfg.stall_max_len = 1 << 40;
            }
            if spec.algo == Algo::Mpqs && spec.n.bits() < 64 && tier == Tier::Quick && cfg.claim_policy != ClaimPolicy::InOrder {
                // remote blocks of a small input sieve very poorly (valid but huge polynomials): a schedule
                // that starves the worker holding block 0 costs minutes of real time. Quick tier: remote
                // blocks only under fair schedules; the thorough tier keeps the unfair ones.
                cfg.strategy = if r.chance(0.5) { Strategy::Random } else { Strategy::RoundRobin(r.range(1, 8)) };
                cfg.stall_prob = 0.0;
                cfg.stall_prob_store = 0.0;
            }
            // (the thread_rng stream of Lanczos is fair in this family, with a different seed in every run: a biased
            // stream may legitimately yield too few dependencies, which would look like a schedule-dependent
            // incompleteness; biased streams belong to the C14 check)
            let with_pred = need_pred;
            let mut abort_fault = false;
            if prop == "C05" || (prop == "C01" && r.chance(0.5)) {
                // abort instant: poll-indexed or time-indexed, inside the run
                let approx_polls = ref_polls.max(1) + workers as u64;
                let kind = r.weighted(&[35, 35, 30]);
                if kind == 2 && workers >= 2 {
                    // between the first polls of the workers of a parallel region (ECM level, sieve, recursion)
                    let region = *r.pick(&[1u64, 1, 1, 2, 2, 3, 4, 6]);
                    cfg.abort = AbortPlan::AtRegion(region, r.range(1, workers as u64 + 1));
                } else if kind == 0 {
                    cfg.abort = AbortPlan::AtPoll(r.range(1, approx_polls + 1));
                } else {
                    // time in [0, ~length of the run], biased towards the middle
                    let len = (ref_steps * 3 / 2).max(10);
                    let t = (r.below(len) + r.below(len)) / 2;
                    cfg.abort = AbortPlan::AtTime(t);
                }
                abort_fault = true;
            }
            let t_sub = std::time::Instant::now();
            let out = run_factor(&spec, threads, with_pred, cfg.clone(), prop == "C04" || prop == "C11");
            if std::env::var("VERIF_TRACE").is_ok() {
                eprintln!(
                    "  sub {sub_id}: threads={threads:?} strat={} steps={} switches={} end={} {:.3}s",
                    cfg.strategy.name(),
                    out.sim.steps,
                    out.sim.context_switches,
                    out.sim.end.class(),
                    t_sub.elapsed().as_secs_f64()
                );
            }
            rep.absorb(&out.sim, abort_fault && out.sim.flip_step.is_some());
            rep.stat(&format!("threads_{}", threads.map(|t| t.to_string()).unwrap_or("none".into())), 1);
            rep.stat(&format!("strategy_{}", cfg.strategy.name().split('(').next().unwrap()), 1);
            if out.sim.flip_step.is_some() {
                rep.stat("aborted_runs", 1);
                rep.stat(
                    match cfg.abort {
                        AbortPlan::AtPoll(_) => "aborted_runs_plan_at_poll",
                        AbortPlan::AtTime(_) => "aborted_runs_plan_at_time",
                        AbortPlan::AtRegion(..) => "aborted_runs_plan_at_region",
                        AbortPlan::Never => "aborted_runs_plan_never",
                    },
                    1,
                );
                if out.sim.flip_step.is_some() && threads.map(|t| t != 1).unwrap_or(false) {
                    rep.stat("aborted_runs_with_pool", 1);
                }
            }
            rep.stat("relations_checked", out.obs.cycles_checked + out.obs.stored_checked);
            rep.stat("map_invariant_breaks", out.obs.map_invariant_breaks);
            if out.sim.rng_draws > 0 {
                rep.stat("runs_whose_final_step_used_lanczos", 1);
                rep.stat("lanczos_rng_words_drawn", out.sim.rng_draws);
            }
            if let (Some(a), Some(b)) = (&out.answer, &reference.answer) {
                if a != b {
                    rep.stat("answer_differs_from_reference", 1);
                }
            }
            let ctx = SubCtx {
                prop,
                spec: &spec,
                reference: &reference,
                ref_complete,
                threads,
                with_pred,
                cfg: &cfg,
                seed,
                idx,
                sub: sub_id,
                is_reference: false,
            };
            push_violations(&mut rep, &ctx, &out);
        }
        rep
    }

    fn replay(&self, replay: &Value) -> Vec<Violation> {
        let spec = Spec::from_json(&replay["scenario"]);
        let prop = replay["property"].as_str().unwrap_or("C04").to_string();
        let threads = replay["threads"].as_u64().map(|t| t as usize);
        let with_pred = replay["with_abort_predicate"].as_bool().unwrap_or(false);
        let mut cfg = cfg_from_json(&replay["sim"]);
        cfg.replay = Some(plan_from_json(&replay["trace"]));
        let ref_complete = replay["reference"]["complete"].as_bool().unwrap_or(false);
        let out = run_factor(&spec, threads, with_pred, cfg.clone(), prop == "C04" || prop == "C11");
        // a dummy reference carrying the recorded facts
        let reference = RunOut {
            sim: out.sim.clone(),
            answer: None,
            obs: ObsStats::default(),
        };
        let ctx = SubCtx {
            prop: &prop,
            spec: &spec,
            reference: &reference,
            ref_complete,
            threads,
            with_pred,
            cfg: &cfg,
            seed: replay["verif_seed"].as_u64().unwrap_or(0),
            idx: replay["scenario_index"].as_u64().unwrap_or(0),
            sub: replay["sub_run"].as_u64().unwrap_or(0),
            is_reference: replay["sub_run"].as_u64() == Some(0),
        };
        judge(&ctx, &out)
            .into_iter()
            .filter(|(oracle, _, _)| input_only(&ctx, &out, oracle).is_none())
            .map(|(oracle, class, message)| {
                let mut r = replay.clone();
                r["trace"] = trace_to_json(&out.sim);
                r["observed"]["end"] = json!(out.sim.end.class());
                r["observed"]["answer"] = answer_json(&out.answer);
                let ub = unsplit_bits(&spec, &out.answer);
                r["observed"]["all_unsplit_entries_below_40_bits"] = json!(!ub.is_empty() && ub.iter().all(|&b| b < 40));
                r["observed"]["unsplit_composite_bits"] = json!(ub);
                Violation {
                    property: prop.clone(),
                    oracle,
                    class,
                    message,
                    replay: r,
                }
            })
            .collect()
    }

    fn simplify(&self, replay: &Value) -> Vec<Value> {
        let mut c = vec![];
        // fewer workers
        if let Some(t) = replay["threads"].as_u64() {
            for nt in [2u64, 3, 4] {
                if nt < t {
                    let mut r = replay.clone();
                    r["threads"] = json!(nt);
                    c.push(r);
                }
            }
        }
        // in-order claims
        if replay["sim"]["claim_policy"] != json!("in_order") {
            let mut r = replay.clone();
            r["sim"]["claim_policy"] = json!("in_order");
            c.push(r);
        }
        // default preferences, one at a time
        for k in ["fb_size", "interval_size", "large_factor", "use_double"] {
            if !replay["scenario"][k].is_null() {
                let mut r = replay.clone();
                r["scenario"][k] = Value::Null;
                c.push(r);
            }
        }
        c
    }

    fn describe(&self, prop: &str, tier: Tier, seed: u64, idx: u64) -> Value {
        if is_classgroup_abort_scenario(prop, idx) {
            return crate::scen::clsabort::ClsAbortFamily.describe(prop, tier, seed, idx);
        }
        if is_multicaller_scenario(prop, idx) || is_multicaller_abort_scenario(prop, idx) {
            return crate::scen::multicaller::MultiCallerFamily.describe(prop, tier, seed, idx);
        }
        if is_classgroup_threads_scenario(prop, idx) {
            return crate::scen::clsthreads::ClsThreadsFamily.describe(prop, tier, seed, idx);
        }
        let mut rng = Rng::new(derive(seed, prop, idx, "scenario"));
        gen_spec(&mut rng, prop, tier).to_json()
    }

    fn components(&self) -> Value {
        json!({
            "real_code": ["yamaquasi (whole crate, compiled from /repo's working tree: factor(), sieves, relation store, linear algebra, ECM/P-1/rho)", "bnum", "bitvec_simd", "wide", "num-integer", "num-traits", "rand 0.8 (everything except thread_rng)"],
            "models": ["rayon -> simrayon (pool, install, par_iter, join; work distribution modelled)", "std::sync::RwLock / atomics -> simsync (sequentially consistent + bounded-stale Relaxed loads)", "OS threads -> coroutines of the shuttle 0.9.3 engine, scheduled by the simulator's own seeded Scheduler", "caller: abort predicate, clock (logical ticks), worker count", "rand::thread_rng -> simulator stream"],
            "left_real_unused": ["std::time::Instant (log text only, Verbosity::Silent)"],
        })
    }
}

fn u128_of(x: &Uint) -> u128 {
    let d = x.digits();
    (d[0] as u128) | ((d[1] as u128) << 64)
}
