//! Scenario family `classgroup_abort` (C05, a share of its scenarios): `classgroup::classgroup` polls
//! the same caller-supplied abort predicate as the factoring entry point (classgroup.rs is one of the
//! files C05 is anchored in). Every poll-distinguishable flip instant is enumerated single-threaded;
//! flip instant x worker count x schedule is searched multi-threaded.
//!
//! Oracles (all conditional on the library having *seen* the abort, i.e. at least one evaluation of the
//! predicate answered true; a run whose flip instant lies behind the last poll is an ordinary run and
//! belongs to C18/C04):
//!   A1 the call returns None (the declared "no answer") or a result that passes every C18 oracle;
//!   A2 no panic, deadlock or livelock;
//!   A3 a thread that received `true` never begins another A-family (gated unit `clsgrp_a`);
//!   A4 units begun after the flip <= simulated threads alive at the flip.

use crate::common::{Family, Report, Tier, Violation};
use crate::scen::clsgrp::{gen_spec_bits, judge as judge_c18, run_cls, RunOut, Spec};
use crate::scen::factor::gen_sim_cfg;
use crate::simjson::{cfg_from_json, cfg_to_json, plan_from_json, trace_to_json};
use serde_json::{json, Value};
use simcore::prng::{derive, mix, Rng};
use simcore::{AbortPlan, RunEnd, SimConfig};

pub struct ClsAbortFamily;

fn judge(spec: &Spec, out: &RunOut, tier: Tier, seed: u64) -> Vec<(String, String, String)> {
    let mut v = vec![];
    let seen = out.sim.true_polls > 0;
    if !seen {
        return v;
    }
    match &out.sim.end {
        RunEnd::Completed | RunEnd::WallLimit => {}
        RunEnd::Panic { message, location } => {
            v.push(("A2_no_panic".into(), format!("panic@{location}"), message.chars().take(300).collect()));
        }
        RunEnd::Deadlock(m) => v.push(("A2_terminates".into(), "deadlock".into(), m.chars().take(300).collect())),
        RunEnd::Livelock => v.push(("A5_bounded_after_flip".into(), "livelock".into(), "step cap exceeded".into())),
    }
    if let Some(Some(_)) = &out.group {
        // a result returned although the abort was seen: it must be a true class group
        let j = judge_c18(spec, None, out, tier, true, seed);
        if let Some((o, c, m)) = j.violations.into_iter().next() {
            v.push((
                "A1_consistent_answer".into(),
                format!("oracle:aborted_result_{}", c.trim_start_matches("oracle:")),
                format!("classgroup() returned a result after its abort predicate had answered true, and the result is wrong: {o}: {m}"),
            ));
        }
    }
    if let Some(a3) = out.sim.a3_violations.first() {
        v.push(("A3_no_new_unit_after_true".into(), "oracle:unit_after_abort_seen".into(), a3.clone()));
    }
    if out.sim.units_after_flip > out.sim.live_at_flip as u64 {
        v.push((
            "A4_units_after_flip_bounded".into(),
            "oracle:too_many_units_after_flip".into(),
            format!(
                "{} A-families began after the abort flipped at step {:?}, but only {} simulated threads were alive then",
                out.sim.units_after_flip, out.sim.flip_step, out.sim.live_at_flip
            ),
        ));
    }
    v
}

fn replay_json(spec: &Spec, threads: Option<usize>, cfg: &SimConfig, out: &RunOut, seed: u64, idx: u64, sub: u64, tier: Tier) -> Value {
    json!({
        "family": "classgroup_abort",
        "property": "C05",
        "verif_seed": seed,
        "scenario_index": idx,
        "sub_run": sub,
        "tier": tier.name(),
        "scenario": spec.to_json(),
        "threads": threads,
        "sim": cfg_to_json(cfg),
        "trace": trace_to_json(&out.sim),
        "observed": {
            "end": out.sim.end.class(),
            "returned": match &out.group { None => "nothing", Some(None) => "None", Some(Some(_)) => "a result" },
            "polls": out.sim.polls,
            "polls_answering_true": out.sim.true_polls,
            "flip_step": out.sim.flip_step,
            "flip_poll": out.sim.flip_poll,
            "units_after_flip": out.sim.units_after_flip,
            "live_at_flip": out.sim.live_at_flip,
        },
    })
}

/// Larger discriminants than the C18 workload: the sieve then goes through several A-families, i.e. several
/// polls single-threaded and several rounds of the parallel loop with a pool.
fn gen_abort_spec(rng: &mut Rng, tier: Tier) -> Spec {
    let bits = match (tier, rng.weighted(&[30, 45, 25])) {
        (_, 0) => rng.range(33, 64),
        (Tier::Quick, 1) => rng.range(65, 84),
        (Tier::Quick, _) => rng.range(85, 96),
        (Tier::Thorough, 1) => rng.range(65, 90),
        (Tier::Thorough, _) => rng.range(91, 112),
    } as u32;
    gen_spec_bits(rng, bits)
}

pub fn run_c05(tier: Tier, seed: u64, idx: u64) -> Report {
    let prop = "C05";
    let mut rep = Report::new(idx);
    let mut rng = Rng::new(derive(seed, prop, idx, "scenario"));
    let mut spec = gen_abort_spec(&mut rng, tier);
    // the sparse group-structure path is irrelevant here (an aborted run never reaches linear algebra)
    spec.fb_size = None;
    let mut sample = spec.to_json();
    sample["entry_point"] = json!("classgroup");
    rep.sample = sample;
    rep.stat("selector_classgroup", 1);
    crate::common::phase(idx, "reference");
    let mut rcfg = SimConfig::reference(derive(seed, prop, idx, "reference"));
    rcfg.wall_limit_ms = Some(if tier == Tier::Quick { 15_000 } else { 60_000 });
    rcfg.step_cap = 5_000_000;
    let reference = run_cls(&spec, None, true, rcfg.clone());
    rep.absorb(&reference.sim, false);
    if reference.sim.end != RunEnd::Completed {
        rep.reference_failed = Some(format!("{} {}", reference.sim.end.class(), match &reference.sim.end {
            RunEnd::Panic { message, .. } => message.chars().take(100).collect::<String>(),
            _ => String::new(),
        }));
        return rep;
    }
    crate::common::phase(idx, "subruns");
    let p = reference.sim.polls;
    let ref_steps = reference.sim.steps.max(200);
    rep.stat("single_thread_polls_in_reference", p);
    let instants: Vec<u64> = if p + 1 <= 400 {
        (1..=p + 1).collect()
    } else {
        let mut v: Vec<u64> = (1..=100).collect();
        let mut r2 = Rng::new(derive(seed, prop, idx, "instants"));
        for _ in 0..200 {
            v.push(r2.range(101, p - 100));
        }
        v.extend(p - 99..=p + 1);
        v.sort();
        v.dedup();
        v
    };
    rep.stat("single_thread_flip_instants", instants.len() as u64);
    let mut sub = 0u64;
    let oseed = derive(seed, prop, idx, "orders");
    let mut account = |rep: &mut Report, out: &RunOut, threads: Option<usize>, cfg: &SimConfig, sub: u64| {
        if out.sim.flip_step.is_some() {
            rep.stat("aborted_runs", 1);
        }
        if out.sim.true_polls > 0 {
            rep.stat("classgroup_runs_that_saw_the_abort", 1);
            match &out.group {
                Some(None) => rep.stat("classgroup_aborted_runs_returning_none", 1),
                Some(Some(_)) => rep.stat("classgroup_aborted_runs_returning_a_result", 1),
                None => {}
            }
        } else if matches!(out.sim.end, RunEnd::Panic { .. }) {
            // not abort related (the library never saw the flip): C18/C04 territory, statistic only
            rep.stat("classgroup_runs_ending_in_panic_without_having_seen_the_abort", 1);
        }
        for (oracle, class, message) in judge(&spec, out, tier, oseed ^ sub) {
            rep.violations.push(Violation {
                property: "C05".into(),
                oracle,
                class,
                message,
                replay: replay_json(&spec, threads, cfg, out, seed, idx, sub, tier),
            });
        }
    };
    for k in instants {
        sub += 1;
        let mut cfg = SimConfig::reference(derive(seed, prop, idx, "enum"));
        cfg.abort = AbortPlan::AtPoll(k);
        cfg.step_cap = 50 * ref_steps.max(1000) + 3_000_000;
        let out = run_cls(&spec, None, true, cfg.clone());
        rep.absorb(&out.sim, true);
        account(&mut rep, &out, None, &cfg, sub);
    }
    let nsub = if tier == Tier::Quick { 12 } else { 32 };
    for j in 0..nsub {
        sub += 1;
        let mut r = Rng::new(derive(seed, prop, idx, "sub") ^ mix(&[j]));
        let threads = *r.pick(&[Some(2usize), Some(2), Some(3), Some(4), Some(4), Some(8), Some(16), Some(0)]);
        let workers = match threads {
            Some(0) => 8,
            Some(t) => t,
            None => 1,
        };
        let mut cfg = gen_sim_cfg(&mut r, ref_steps, workers, j % 4 != 0);
        let approx_polls = p.max(1) + workers as u64;
        let kind = r.weighted(&[35, 30, 35]);
        cfg.abort = if kind == 2 {
            AbortPlan::AtRegion(*r.pick(&[1u64, 1, 1, 2]), r.range(1, workers as u64 + 1))
        } else if kind == 0 {
            AbortPlan::AtPoll(r.range(1, approx_polls + 1))
        } else {
            let len = (ref_steps * 3 / 2).max(10);
            AbortPlan::AtTime((r.below(len) + r.below(len)) / 2)
        };
        let out = run_cls(&spec, threads, true, cfg.clone());
        rep.absorb(&out.sim, out.sim.flip_step.is_some());
        rep.stat(&format!("threads_{}", threads.map(|t| t.to_string()).unwrap_or("none".into())), 1);
        if out.sim.flip_step.is_some() {
            rep.stat("aborted_runs_with_pool", 1);
            rep.stat(
                match cfg.abort {
                    AbortPlan::AtPoll(_) => "aborted_runs_plan_at_poll",
                    AbortPlan::AtTime(_) => "aborted_runs_plan_at_time",
                    AbortPlan::AtRegion(..) => "aborted_runs_plan_at_region",
                    AbortPlan::Never => "aborted_runs_plan_never",
                },
                1,
            );
        }
        account(&mut rep, &out, threads, &cfg, sub);
    }
    rep
}

impl Family for ClsAbortFamily {
    fn name(&self) -> &'static str {
        "classgroup_abort"
    }
    fn rule(&self, _prop: &str, _tier: Tier) -> String {
        "classgroup() under abort: see the C05 rule of the factor family".into()
    }
    fn count(&self, _prop: &str, _tier: Tier) -> u64 {
        0
    }
    fn run(&self, _prop: &str, tier: Tier, seed: u64, idx: u64) -> Report {
        run_c05(tier, seed, idx)
    }
    fn replay(&self, replay: &Value) -> Vec<Violation> {
        let spec = Spec::from_json(&replay["scenario"]);
        let threads = replay["threads"].as_u64().map(|t| t as usize);
        let tier = if replay["tier"].as_str() == Some("thorough") { Tier::Thorough } else { Tier::Quick };
        let mut cfg = cfg_from_json(&replay["sim"]);
        cfg.replay = Some(plan_from_json(&replay["trace"]));
        let out = run_cls(&spec, threads, true, cfg);
        let seed = replay["verif_seed"].as_u64().unwrap_or(0);
        let idx = replay["scenario_index"].as_u64().unwrap_or(0);
        let sub = replay["sub_run"].as_u64().unwrap_or(0);
        let oseed = derive(seed, "C05", idx, "orders") ^ sub;
        judge(&spec, &out, tier, oseed)
            .into_iter()
            .map(|(oracle, class, message)| {
                let mut r = replay.clone();
                r["trace"] = trace_to_json(&out.sim);
                r["observed"]["end"] = json!(out.sim.end.class());
                Violation { property: "C05".into(), oracle, class, message, replay: r }
            })
            .collect()
    }
    fn simplify(&self, replay: &Value) -> Vec<Value> {
        let mut c = vec![];
        if let Some(t) = replay["threads"].as_u64() {
            for nt in [2u64, 3, 4] {
                if nt < t {
                    let mut r = replay.clone();
                    r["threads"] = json!(nt);
                    c.push(r);
                }
            }
        }
        if replay["sim"]["claim_policy"] != json!("in_order") {
            let mut r = replay.clone();
            r["sim"]["claim_policy"] = json!("in_order");
            c.push(r);
        }
        c
    }
    fn components(&self) -> Value {
        json!({})
    }
    fn describe(&self, _prop: &str, tier: Tier, seed: u64, idx: u64) -> Value {
        let mut rng = Rng::new(derive(seed, "C05", idx, "scenario"));
        gen_abort_spec(&mut rng, tier).to_json()
    }
}
