//! Scenario family `multicaller` (C04, a share of its scenarios): two or three caller threads run
//! `yamaquasi::factor` concurrently on ONE shared `&Preferences` — the object carries state
//! (`pm1_done`, an anchor of C04) and the abort callback, and nothing in its type stops a caller from
//! sharing it (`Preferences: Sync`; the Python binding and any server-style caller do). Each call
//! creates its own pool from `prefs.threads`, so pools of different calls interleave too.
//!
//! References (sequential executions of the same calls): every caller's input is run alone,
//! single-threaded, once on fresh preferences and once on preferences whose `pm1_done` latch is
//! already set (a call on a >64-bit composite came first). A scenario in which one of these fails is
//! `reference_failed`; completeness of a caller's answer is demanded only when both sequential
//! references are complete — whatever the interleaving, a call observes the latch either unset or set.
//!
//! Oracles per run: S1 terminates, S2 no panic in any simulated thread, S3 every answer is a valid
//! factorisation of that caller's input, S4 complete whenever both references are, S5 relation observer.

use crate::common::{Family, Report, Tier, Violation};
use crate::oracles::primes::{gen_prime, is_prime, next_prime};
use crate::scen::factor::{
    check_c01, gen_sim_cfg, gen_spec, install_relation_observer, is_complete, Answer, ObsStats, Spec,
};
use crate::simjson::{cfg_from_json, cfg_to_json, plan_from_json, trace_to_json};
use crate::util::{parse_uint, uint_dec};
use serde_json::{json, Value};
use simcore::prng::{derive, mix, Rng};
use simcore::{run_sim, RunEnd, SimConfig, SimOutcome};
use std::cell::RefCell;
use std::rc::Rc;
use std::sync::{Arc, Mutex};
use yamaquasi::{Algo, Preferences, Uint, Verbosity};

pub struct MultiCallerFamily;

#[derive(Clone, Debug)]
pub struct MSpec {
    /// one entry per caller; the preference knobs of callers[0] are the shared ones
    pub callers: Vec<Spec>,
}

impl MSpec {
    fn to_json(&self) -> Value {
        json!({
            "entry_point": "factor x callers on one shared Preferences",
            "callers": self.callers.iter().map(|c| c.to_json()).collect::<Vec<_>>(),
            "shared_preferences": {
                "fb_size": self.callers[0].fb_size,
                "interval_size": self.callers[0].interval_size,
                "large_factor": self.callers[0].large_factor,
                "use_double": self.callers[0].use_double,
            },
        })
    }
    fn from_json(v: &Value) -> MSpec {
        MSpec {
            callers: v["callers"].as_array().map(|a| a.iter().map(Spec::from_json).collect()).unwrap_or_default(),
        }
    }
}

/// A 69-bit semiprime: an `Algo::Auto` call on it sets the `pm1_done` latch of the preferences.
fn latch_setter() -> Uint {
    let p = next_prime((1u128 << 34) + 12345);
    let q = next_prime((1u128 << 35) + 999);
    Uint::from(p) * Uint::from(q)
}

pub struct MOut {
    pub sim: SimOutcome,
    pub answers: Vec<Option<Answer>>,
    pub obs: ObsStats,
}

fn make_prefs(knobs: &Spec, threads: Option<usize>, with_pred: bool) -> Preferences {
    let mut prefs = Preferences::default();
    if with_pred {
        prefs.should_abort = Some(Box::new(simcore::probe::abort_poll));
    }
    prefs.threads = threads;
    prefs.verbosity = Verbosity::Silent;
    prefs.fb_size = knobs.fb_size;
    prefs.interval_size = knobs.interval_size;
    prefs.large_factor = knobs.large_factor;
    prefs.use_double = knobs.use_double;
    prefs
}

/// Run the callers concurrently (or, with `preset_latch`, one caller after a latch-setting call).
pub fn run_multi(spec: &MSpec, only: Option<usize>, preset_latch: bool, threads: Option<usize>, cfg: SimConfig, observe: bool) -> MOut {
    run_multi_pred(spec, only, preset_latch, threads, cfg, observe, false)
}

pub fn run_multi_pred(spec: &MSpec, only: Option<usize>, preset_latch: bool, threads: Option<usize>, cfg: SimConfig, observe: bool, with_pred: bool) -> MOut {
    let stats = Rc::new(RefCell::new(ObsStats::default()));
    install_relation_observer(stats.clone(), observe);
    let callers: Vec<(Uint, Algo)> = spec
        .callers
        .iter()
        .enumerate()
        .filter(|(i, _)| only.map(|o| o == *i).unwrap_or(true))
        .map(|(_, c)| (c.n, c.algo))
        .collect();
    let ncall = callers.len();
    let knobs = spec.callers[0].clone();
    let slots: Arc<Mutex<Vec<Option<Answer>>>> = Arc::new(Mutex::new(vec![None; ncall]));
    let slots2 = slots.clone();
    let (sim, _) = run_sim(cfg, move || {
        let prefs = make_prefs(&knobs, threads, with_pred);
        if preset_latch {
            let _ = yamaquasi::factor(latch_setter(), Algo::Auto, &prefs);
        }
        let prefs_ref = &prefs;
        if ncall == 1 {
            let (n, algo) = callers[0];
            let a = match yamaquasi::factor(n, algo, prefs_ref) {
                Ok(v) => Answer::Factors(v),
                Err(_) => Answer::Failure,
            };
            slots2.lock().unwrap()[0] = Some(a);
            return;
        }
        let mut clients: Vec<Box<dyn FnOnce() + Send + '_>> = vec![];
        for (i, (n, algo)) in callers.iter().copied().enumerate() {
            let slots3 = slots2.clone();
            clients.push(Box::new(move || {
                let a = match yamaquasi::factor(n, algo, prefs_ref) {
                    Ok(v) => Answer::Factors(v),
                    Err(_) => Answer::Failure,
                };
                slots3.lock().unwrap()[i] = Some(a);
            }));
        }
        simcore::task::run_clients(clients, 8 << 20);
    });
    simcore::probe::set_observer(None);
    let obs = stats.borrow().clone();
    let answers = slots.lock().unwrap().clone();
    MOut { sim, answers, obs }
}

/// A prime p of about `bits` bits such that p - 1 = 2 * (primes below 600) * (at most one prime below 40000):
/// found by the quick P-1 stage of the automatic strategy (B1 = 600, B2 = 40e3 for inputs of 85-190 bits).
fn gen_pm1_smooth_prime(rng: &mut Rng, bits: u32) -> u128 {
    loop {
        let mut m: u128 = 2;
        while 128 - m.leading_zeros() + 15 < bits {
            let r = loop {
                let r = rng.range(2, 599) as u128;
                if is_prime(r) {
                    break r;
                }
            };
            m *= r;
        }
        for _ in 0..200 {
            let r = loop {
                let r = rng.range(601, 39_999) as u128;
                if is_prime(r) {
                    break r;
                }
            };
            let p = m * r + 1;
            if is_prime(p) {
                return p;
            }
        }
    }
}

/// An input for `Algo::Auto` on which the quick P-1 stage succeeds: one factor with smooth p - 1, one or two
/// ordinary primes; above 128 bits in half of the cases (the automatic strategy then uses the pooled ECM driver).
fn gen_pm1_caller(rng: &mut Rng) -> Spec {
    let total = if rng.chance(0.5) { rng.range(130, 150) } else { rng.range(88, 128) } as u32;
    let pb = rng.range(36, 56) as u32;
    let p = gen_pm1_smooth_prime(rng, pb);
    let rest = total.saturating_sub(128 - p.leading_zeros()).max(40);
    let mut primes = vec![p];
    if rest > 80 && rng.chance(0.5) {
        primes.push(gen_prime(rng, rest / 2));
        primes.push(gen_prime(rng, rest - rest / 2));
    } else {
        primes.push(gen_prime(rng, rest.min(120)));
    }
    primes.sort();
    let mut n = Uint::ONE;
    for &q in &primes {
        n = n * Uint::from(q);
    }
    Spec { n, primes, algo: Algo::Auto, fb_size: None, interval_size: None, large_factor: None, use_double: None, shape: "pm1_smooth_factor".into() }
}

fn gen_mspec(rng: &mut Rng, tier: Tier) -> MSpec {
    let k = if rng.chance(0.7) { 2 } else { 3 };
    let auto_profile = rng.chance(0.65);
    let mut callers: Vec<Spec> = vec![];
    for i in 0..k {
        if auto_profile && rng.chance(if i == 0 { 0.5 } else { 0.2 }) {
            callers.push(gen_pm1_caller(rng));
            continue;
        }
        let mut tries = 0;
        let s = loop {
            tries += 1;
            let s = gen_spec(rng, "C04", tier);
            // keep a scenario affordable: k calls, each possibly with its own pool
            if s.n.bits() > 112 && tries < 50 {
                continue;
            }
            if auto_profile && tries < 50 {
                // the shared latch only matters for Auto above 64 bits
                if s.algo != Algo::Auto || s.n.bits() <= 66 {
                    continue;
                }
            }
            if s.shape.contains("oversized_fb") && tries < 50 {
                continue;
            }
            break s;
        };
        callers.push(s);
    }
    // shared preferences: the knobs of the first caller apply to all (they are fields of the one object)
    let (fb, iv, lf, ud) = (callers[0].fb_size, callers[0].interval_size, callers[0].large_factor, callers[0].use_double);
    // a factor-base size chosen for one input is passed to the others as well: keep it modest
    let fb = fb.map(|f| f.min(2000));
    for c in callers.iter_mut() {
        c.fb_size = fb;
        c.interval_size = iv;
        c.large_factor = lf;
        c.use_double = ud;
    }
    MSpec { callers }
}

struct References {
    fresh: Vec<MOut>,
    preset: Vec<MOut>,
}

fn judge(spec: &MSpec, refs_complete: &[bool], out: &MOut, lanczos_in_refs: bool) -> Vec<(String, String, String)> {
    let mut v = vec![];
    match &out.sim.end {
        RunEnd::Completed | RunEnd::WallLimit => {}
        RunEnd::Panic { message, location } => {
            v.push(("S2_no_panic".into(), format!("panic@{location}"), message.chars().take(300).collect()));
        }
        RunEnd::Deadlock(m) => v.push(("S1_terminates".into(), "deadlock".into(), m.chars().take(300).collect())),
        RunEnd::Livelock => v.push(("S1_terminates".into(), "livelock".into(), "step cap exceeded".into())),
    }
    let lanczos = out.sim.rng_draws > 0 || lanczos_in_refs;
    for (i, a) in out.answers.iter().enumerate() {
        let Some(a) = a else { continue };
        let c = &spec.callers[i];
        if let Err(e) = check_c01(c, a) {
            v.push(("S3_valid_factorization".into(), "oracle:wrong_factor_list".into(), format!("caller {i} (n = {}): {e}", uint_dec(&c.n))));
        }
        if refs_complete[i] && !lanczos && !is_complete(c, a) {
            v.push((
                "S4_complete_when_reference_complete".into(),
                "oracle:incomplete_vs_reference".into(),
                format!(
                    "caller {i}: both sequential references (fresh preferences; P-1 latch already set) return the complete factorisation of {}, this run returned {}",
                    uint_dec(&c.n),
                    match a {
                        Answer::Failure => "FactoringFailure".to_string(),
                        Answer::Factors(l) => format!("{:?}", l.iter().map(uint_dec).collect::<Vec<_>>()),
                    }
                ),
            ));
        }
    }
    if !out.obs.failures.is_empty() {
        v.push(("S5_relations_valid".into(), "oracle:bad_relation".into(), out.obs.failures[0].clone()));
    }
    v
}

/// Input-only gate at the sub-call level (see factor.rs): a sub-input that fails in a sequential,
/// single-threaded call with the same selector and preferences (latch unset or set) needs no schedule.
fn input_only(spec: &MSpec, refs: Option<&References>, out: &MOut, oracle: &str, message: &str) -> Option<String> {
    let sub_ok = |caller: usize, n: Uint, preset: bool| -> bool {
        let mut s2 = spec.clone();
        s2.callers[caller].n = n;
        let mut cfg = SimConfig::reference(0x5b5b_5b5b);
        cfg.step_cap = 600_000;
        cfg.wall_limit_ms = Some(8_000);
        let r = run_multi(&s2, Some(caller), preset, None, cfg, false);
        r.sim.end == RunEnd::Completed
            && matches!(&r.answers[0], Some(Answer::Factors(l)) if l.iter().all(|f| f.bits() <= 127 && crate::oracles::primes::is_prime({ let d = f.digits(); (d[0] as u128) | ((d[1] as u128) << 64) })))
    };
    if oracle.starts_with("S4") {
        let caller: usize = message.strip_prefix("caller ").and_then(|m| m.split(':').next()).and_then(|x| x.parse().ok())?;
        let Some(Answer::Factors(l)) = &out.answers[caller] else { return None };
        let c = &spec.callers[caller];
        let unsplit: Vec<Uint> = l.iter().filter(|f| !c.primes.iter().any(|&p| Uint::from(p) == **f)).copied().collect();
        for u in &unsplit {
            if sub_ok(caller, *u, false) && sub_ok(caller, *u, true) {
                return None;
            }
        }
        return Some(format!("the unsplit entries {:?} are not split by a sequential single-threaded call either", unsplit.iter().map(uint_dec).collect::<Vec<_>>()));
    }
    if oracle.starts_with("S2") || oracle.starts_with("S1") {
        let refs = refs?;
        let seen: Vec<&String> = refs.fresh.iter().chain(refs.preset.iter()).flat_map(|r| r.obs.inputs.iter()).collect();
        let fresh: Vec<&String> = out.obs.inputs.iter().filter(|i| !seen.contains(i)).collect();
        for i in fresh.iter().rev().take(4) {
            let n = parse_uint(i);
            // the sub-input may belong to any caller whose input it divides
            for (k, c) in spec.callers.iter().enumerate() {
                if (c.n % n).is_zero() && !(sub_ok(k, n, false) && sub_ok(k, n, true)) {
                    return Some(format!("a sequential single-threaded call with the same selector and preferences on the sub-input {i} fails too"));
                }
            }
        }
    }
    None
}

fn replay_json(spec: &MSpec, threads: Option<usize>, cfg: &SimConfig, out: &MOut, refs_complete: &[bool], seed: u64, idx: u64, sub: u64, preset: bool) -> Value {
    json!({
        "family": "multicaller",
        "property": "C04",
        "verif_seed": seed,
        "scenario_index": idx,
        "sub_run": sub,
        "scenario": spec.to_json(),
        "threads": threads,
        "latch_set_by_an_earlier_call": preset,
        "sim": cfg_to_json(cfg),
        "trace": trace_to_json(&out.sim),
        "reference": { "complete_in_both_sequential_references": refs_complete },
        "observed": {
            "end": out.sim.end.class(),
            "answers": out.answers.iter().map(|a| match a {
                None => Value::Null,
                Some(Answer::Failure) => json!("FactoringFailure"),
                Some(Answer::Factors(l)) => json!(l.iter().map(uint_dec).collect::<Vec<_>>()),
            }).collect::<Vec<_>>(),
            "steps": out.sim.steps,
        },
    })
}

pub fn run_c04(tier: Tier, seed: u64, idx: u64) -> Report {
    let prop = "C04";
    let mut rep = Report::new(idx);
    let mut rng = Rng::new(derive(seed, prop, idx, "scenario"));
    let spec = gen_mspec(&mut rng, tier);
    rep.sample = spec.to_json();
    rep.stat("scenarios_with_concurrent_callers_on_shared_preferences", 1);
    rep.stat(&format!("concurrent_callers_{}", spec.callers.len()), 1);
    crate::common::phase(idx, "reference");
    let mut refs = References { fresh: vec![], preset: vec![] };
    let mut refs_complete = vec![];
    let mut ref_steps = 0u64;
    for i in 0..spec.callers.len() {
        for preset in [false, true] {
            let mut rcfg = SimConfig::reference(derive(seed, prop, idx, "reference") ^ mix(&[i as u64, preset as u64]));
            rcfg.step_cap = 600_000;
            rcfg.wall_limit_ms = Some(if tier == Tier::Quick { 8_000 } else { 30_000 });
            let r = run_multi(&spec, Some(i), preset, None, rcfg, true);
            rep.absorb(&r.sim, false);
            if r.sim.end != RunEnd::Completed {
                rep.reference_failed = Some(format!("{}: {}", r.sim.end.class(), match &r.sim.end {
                    RunEnd::Panic { message, .. } => message.chars().take(120).collect::<String>(),
                    _ => String::new(),
                }));
                return rep;
            }
            if !preset {
                ref_steps += r.sim.steps;
            }
            if preset { refs.preset.push(r) } else { refs.fresh.push(r) }
        }
        let c = &spec.callers[i];
        let ok = |r: &MOut| r.answers[0].as_ref().map(|a| is_complete(c, a)).unwrap_or(false);
        refs_complete.push(ok(&refs.fresh[i]) && ok(&refs.preset[i]));
    }
    let lanczos_in_refs = refs.fresh.iter().chain(refs.preset.iter()).any(|r| r.sim.rng_draws > 0);
    rep.stat("callers_with_complete_sequential_references", refs_complete.iter().filter(|&&b| b).count() as u64);
    // the absolute oracles judge the sequential references too
    for (i, r) in refs.fresh.iter().chain(refs.preset.iter()).enumerate() {
        let k = i % spec.callers.len();
        if let Some(a) = &r.answers[0] {
            if let Err(e) = check_c01(&spec.callers[k], a) {
                let mut one = spec.clone();
                one.callers = vec![spec.callers[k].clone()];
                rep.violations.push(Violation {
                    property: prop.into(),
                    oracle: "S3_valid_factorization".into(),
                    class: "oracle:wrong_factor_list".into(),
                    message: format!("caller 0 (n = {}): {e}", uint_dec(&spec.callers[k].n)),
                    replay: replay_json(&one, None, &SimConfig::reference(0), r, &[false], seed, idx, 0, i >= spec.callers.len()),
                });
            }
        }
    }
    crate::common::phase(idx, "subruns");
    let mut nsub: u64 = if tier == Tier::Quick { 12 } else { 32 };
    if ref_steps > 20_000 {
        nsub = nsub.min(4);
    }
    if spec.callers.iter().any(|c| c.algo == Algo::Mpqs) {
        nsub = nsub.min(6);
    }
    for j in 0..nsub {
        let sub = j + 1;
        let mut r = Rng::new(derive(seed, prop, idx, "sub") ^ mix(&[j]));
        let threads = *r.pick(&[None, Some(1usize), Some(2), Some(2), Some(3), Some(4), Some(0)]);
        let workers = match threads {
            None | Some(1) => 1,
            Some(0) => 8,
            Some(t) => t,
        } * spec.callers.len();
        let mut cfg = gen_sim_cfg(&mut r, ref_steps.max(200), workers, j % 4 != 0);
        if spec.callers.iter().any(|c| c.algo == Algo::Mpqs) {
            cfg.claim_policy = simcore::ClaimPolicy::InOrder;
        }
        let out = run_multi(&spec, None, false, threads, cfg.clone(), true);
        rep.absorb(&out.sim, false);
        rep.stat(&format!("threads_{}", threads.map(|t| t.to_string()).unwrap_or("none".into())), 1);
        rep.stat("relations_checked", out.obs.cycles_checked + out.obs.stored_checked);
        for (oracle, class, message) in judge(&spec, &refs_complete, &out, lanczos_in_refs) {
            if let Some(why) = input_only(&spec, Some(&refs), &out, &oracle, &message) {
                rep.stat("failures_of_a_sub_call_that_are_input_only", 1);
                let _ = why;
                continue;
            }
            rep.violations.push(Violation {
                property: prop.into(),
                oracle,
                class,
                message,
                replay: replay_json(&spec, threads, &cfg, &out, &refs_complete, seed, idx, sub, false),
            });
        }
    }
    rep
}

fn judge_c05(spec: &MSpec, out: &MOut) -> Vec<(String, String, String)> {
    let mut v = vec![];
    match &out.sim.end {
        RunEnd::Completed | RunEnd::WallLimit => {}
        RunEnd::Panic { message, location } => v.push(("A2_no_panic".into(), format!("panic@{location}"), message.chars().take(300).collect())),
        RunEnd::Deadlock(m) => v.push(("A2_terminates".into(), "deadlock".into(), m.chars().take(300).collect())),
        RunEnd::Livelock => v.push(("A5_bounded_after_flip".into(), "livelock".into(), "step cap exceeded".into())),
    }
    for (i, a) in out.answers.iter().enumerate() {
        let Some(a) = a else { continue };
        if let Err(e) = check_c01(&spec.callers[i], a) {
            v.push(("A1_consistent_answer".into(), "oracle:wrong_factor_list".into(), format!("caller {i} (n = {}): {e}", uint_dec(&spec.callers[i].n))));
        }
    }
    if let Some(a3) = out.sim.a3_violations.first() {
        v.push(("A3_no_new_unit_after_true".into(), "oracle:unit_after_abort_seen".into(), a3.clone()));
    }
    if out.sim.flip_step.is_some() && out.sim.units_after_flip > out.sim.live_at_flip as u64 {
        v.push((
            "A4_units_after_flip_bounded".into(),
            "oracle:too_many_units_after_flip".into(),
            format!("{} gated work units began after the abort flipped at step {:?}, but only {} simulated threads were alive then", out.sim.units_after_flip, out.sim.flip_step, out.sim.live_at_flip),
        ));
    }
    v
}

/// C05 with concurrent callers: the callers share the abort callback as well (one `&Preferences`). When it starts
/// answering true every call must come back with a consistent answer, none may panic or hang, and no thread of
/// any call may begin a gated unit after having received `true`.
pub fn run_c05(tier: Tier, seed: u64, idx: u64) -> Report {
    use simcore::AbortPlan;
    let prop = "C05";
    let mut rep = Report::new(idx);
    let mut rng = Rng::new(derive(seed, prop, idx, "scenario"));
    let spec = gen_mspec(&mut rng, tier);
    rep.sample = spec.to_json();
    rep.stat("scenarios_with_concurrent_callers_on_shared_preferences", 1);
    crate::common::phase(idx, "reference");
    let mut refs = References { fresh: vec![], preset: vec![] };
    let (mut ref_steps, mut ref_polls) = (0u64, 0u64);
    for i in 0..spec.callers.len() {
        for preset in [false, true] {
            let mut rcfg = SimConfig::reference(derive(seed, prop, idx, "reference") ^ mix(&[i as u64, preset as u64]));
            rcfg.step_cap = 600_000;
            rcfg.wall_limit_ms = Some(if tier == Tier::Quick { 8_000 } else { 30_000 });
            let r = run_multi_pred(&spec, Some(i), preset, None, rcfg, false, true);
            rep.absorb(&r.sim, false);
            if r.sim.end != RunEnd::Completed {
                rep.reference_failed = Some(format!("{}: {}", r.sim.end.class(), match &r.sim.end {
                    RunEnd::Panic { message, .. } => message.chars().take(120).collect::<String>(),
                    _ => String::new(),
                }));
                return rep;
            }
            if !preset {
                ref_steps += r.sim.steps;
                ref_polls += r.sim.polls;
            }
            if preset { refs.preset.push(r) } else { refs.fresh.push(r) }
        }
    }
    crate::common::phase(idx, "subruns");
    let mut nsub: u64 = if tier == Tier::Quick { 12 } else { 32 };
    if ref_steps > 20_000 {
        nsub = nsub.min(4);
    }
    if spec.callers.iter().any(|c| c.algo == Algo::Mpqs) {
        nsub = nsub.min(6);
    }
    if spec.callers.iter().any(|c| c.algo == Algo::Ecm) {
        // an aborted pure-ECM call still walks all nine B1 levels (seconds of real time)
        nsub = nsub.min(2);
    }
    for j in 0..nsub {
        let sub = j + 1;
        let mut r = Rng::new(derive(seed, prop, idx, "sub") ^ mix(&[j]));
        let threads = *r.pick(&[None, Some(1usize), Some(2), Some(2), Some(3), Some(4), Some(0)]);
        let per_call = match threads {
            None | Some(1) => 1,
            Some(0) => 8,
            Some(t) => t,
        };
        let workers = per_call * spec.callers.len();
        let mut cfg = gen_sim_cfg(&mut r, ref_steps.max(200), workers, j % 4 != 0);
        if spec.callers.iter().any(|c| c.algo == Algo::Mpqs) {
            cfg.claim_policy = simcore::ClaimPolicy::InOrder;
        }
        let kind = r.weighted(&[40, 35, 25]);
        cfg.abort = if kind == 2 && per_call >= 2 {
            AbortPlan::AtRegion(*r.pick(&[1u64, 1, 2, 2, 3, 4]), r.range(1, per_call as u64 + 1))
        } else if kind == 0 {
            AbortPlan::AtPoll(r.range(1, ref_polls.max(1) + workers as u64 + 1))
        } else {
            let len = (ref_steps * 3 / 2).max(10);
            AbortPlan::AtTime((r.below(len) + r.below(len)) / 2)
        };
        let out = run_multi_pred(&spec, None, false, threads, cfg.clone(), false, true);
        rep.absorb(&out.sim, out.sim.flip_step.is_some());
        rep.stat(&format!("threads_{}", threads.map(|t| t.to_string()).unwrap_or("none".into())), 1);
        if out.sim.flip_step.is_some() {
            rep.stat("aborted_runs", 1);
            rep.stat("aborted_runs_with_concurrent_callers", 1);
        }
        for (oracle, class, message) in judge_c05(&spec, &out) {
            if oracle.starts_with("A2") {
                if input_only(&spec, Some(&refs), &out, "S2", &message).is_some() {
                    rep.stat("failures_of_a_sub_call_that_are_input_only", 1);
                    continue;
                }
            }
            let mut rj = replay_json(&spec, threads, &cfg, &out, &vec![false; spec.callers.len()], seed, idx, sub, false);
            rj["property"] = json!("C05");
            rj["with_abort_predicate"] = json!(true);
            rep.violations.push(Violation { property: prop.into(), oracle, class, message, replay: rj });
        }
    }
    rep
}

impl Family for MultiCallerFamily {
    fn name(&self) -> &'static str {
        "multicaller"
    }
    fn rule(&self, _prop: &str, _tier: Tier) -> String {
        "concurrent callers on one shared Preferences: see the C04 rule of the factor family".into()
    }
    fn count(&self, _prop: &str, _tier: Tier) -> u64 {
        0
    }
    fn run(&self, _prop: &str, tier: Tier, seed: u64, idx: u64) -> Report {
        run_c04(tier, seed, idx)
    }
    fn replay(&self, replay: &Value) -> Vec<Violation> {
        let spec = MSpec::from_json(&replay["scenario"]);
        let threads = replay["threads"].as_u64().map(|t| t as usize);
        let mut cfg = cfg_from_json(&replay["sim"]);
        cfg.replay = Some(plan_from_json(&replay["trace"]));
        let refs_complete: Vec<bool> = replay["reference"]["complete_in_both_sequential_references"]
            .as_array()
            .map(|a| a.iter().map(|b| b.as_bool().unwrap_or(false)).collect())
            .unwrap_or_else(|| vec![false; spec.callers.len()]);
        let preset = replay["latch_set_by_an_earlier_call"].as_bool().unwrap_or(false);
        if replay["property"].as_str() == Some("C05") {
            let out = run_multi_pred(&spec, None, false, threads, cfg, false, true);
            return judge_c05(&spec, &out)
                .into_iter()
                .map(|(oracle, class, message)| {
                    let mut r = replay.clone();
                    r["trace"] = trace_to_json(&out.sim);
                    r["observed"]["end"] = json!(out.sim.end.class());
                    Violation { property: "C05".into(), oracle, class, message, replay: r }
                })
                .collect();
        }
        let out = run_multi(&spec, None, preset, threads, cfg, true);
        judge(&spec, &refs_complete, &out, false)
            .into_iter()
            .filter(|(oracle, _, message)| input_only(&spec, None, &out, oracle, message).is_none())
            .map(|(oracle, class, message)| {
                let mut r = replay.clone();
                r["trace"] = trace_to_json(&out.sim);
                r["observed"]["end"] = json!(out.sim.end.class());
                Violation { property: "C04".into(), oracle, class, message, replay: r }
            })
            .collect()
    }
    fn simplify(&self, replay: &Value) -> Vec<Value> {
        let mut c = vec![];
        if let Some(t) = replay["threads"].as_u64() {
            for nt in [2u64, 3] {
                if nt < t {
                    let mut r = replay.clone();
                    r["threads"] = json!(nt);
                    c.push(r);
                }
            }
        }
        c
    }
    fn components(&self) -> Value {
        json!({})
    }
    fn describe(&self, prop: &str, tier: Tier, seed: u64, idx: u64) -> Value {
        let mut rng = Rng::new(derive(seed, prop, idx, "scenario"));
        gen_mspec(&mut rng, tier).to_json()
    }
}
