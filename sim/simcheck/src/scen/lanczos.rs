//! Scenario family `lanczos` (C14, scoped): block Lanczos over every draw of its random source
//! (seam on `rand::thread_rng`), including biased draws. Gauss runs as reference only.

use crate::common::{Family, Report, Tier, Violation};
use crate::simjson::{cfg_from_json, cfg_to_json};
use bitvec_simd::BitVec;
use serde_json::{json, Value};
use simcore::prng::{derive, mix, Rng};
use simcore::{run_sim, RngBias, RunEnd, SimConfig, SimOutcome};
use yamaquasi::matrix::gf2::{kernel_gauss, kernel_lanczos, SparseMat};
use yamaquasi::Verbosity;

pub struct LanczosFamily;

#[derive(Clone, Debug)]
pub struct Spec {
    pub rows: usize,
    pub cols: Vec<Vec<usize>>,
    pub kind: String,
    pub gen_seed: u64,
}

/// Matrices are regenerated from their seed (they are large); the replay file stores the
/// generator parameters, which determine the matrix exactly.
#[derive(Clone, Debug)]
pub struct GenParams {
    pub seed: u64,
    pub rows: usize,
    pub extra_cols: usize,
    pub dense_rows: usize,
    pub dense_p: f64,
    pub tail_ones: usize,
    pub dup_cols: usize,
    pub zero_cols: usize,
    pub planted: usize,
    pub uniform: bool,
}

impl GenParams {
    fn to_json(&self) -> Value {
        json!({
            "seed": self.seed, "rows": self.rows, "extra_cols": self.extra_cols, "dense_rows": self.dense_rows,
            "dense_p": self.dense_p, "tail_ones": self.tail_ones, "dup_cols": self.dup_cols,
            "zero_cols": self.zero_cols, "planted": self.planted, "uniform": self.uniform,
        })
    }
    fn from_json(v: &Value) -> GenParams {
        GenParams {
            seed: v["seed"].as_u64().unwrap(),
            rows: v["rows"].as_u64().unwrap() as usize,
            extra_cols: v["extra_cols"].as_u64().unwrap() as usize,
            dense_rows: v["dense_rows"].as_u64().unwrap() as usize,
            dense_p: v["dense_p"].as_f64().unwrap(),
            tail_ones: v["tail_ones"].as_u64().unwrap() as usize,
            dup_cols: v["dup_cols"].as_u64().unwrap() as usize,
            zero_cols: v["zero_cols"].as_u64().unwrap() as usize,
            planted: v["planted"].as_u64().unwrap() as usize,
            uniform: v["uniform"].as_bool().unwrap_or(false),
        }
    }
}

pub fn gen_params(rng: &mut Rng, tier: Tier) -> GenParams {
    // a quarter of the scenarios: small shapes and row counts on / next to the word and SIMD-block boundaries
    // (64-bit words, 256-bit blocks of the bit vectors)
    let boundary = rng.below(4) == 0;
    let rows = match (tier, rng.below(4)) {
        _ if boundary => {
            if rng.chance(0.35) {
                rng.range(100, 300)
            } else {
                let b = *rng.pick(&[128u64, 192, 256, 256, 256, 320, 384, 512, 512, 768, 1024, 1280, 2048]);
                (b as i64 + *rng.pick(&[0i64, 0, 0, -1, 1])) as u64
            }
        }
        (_, 0) => rng.range(300, 700),
        (_, 1) => rng.range(700, 1500),
        (Tier::Quick, _) => rng.range(1000, 2500),
        (Tier::Thorough, 2) => rng.range(1500, 4000),
        (Tier::Thorough, _) => rng.range(4000, 6000),
    } as usize;
    GenParams {
        seed: rng.next_u64(),
        rows,
        extra_cols: rng.range(0, 100) as usize,
        dense_rows: *rng.pick(&[64usize, 64, 32, 100]),
        dense_p: *rng.pick(&[0.1, 0.3, 0.5]),
        tail_ones: rng.range(2, 12) as usize,
        dup_cols: if rng.chance(0.4) { rng.range(1, 20) as usize } else { 0 },
        zero_cols: if rng.chance(0.3) { rng.range(1, 5) as usize } else { 0 },
        planted: if rng.chance(0.5) { rng.range(1, 40) as usize } else { 0 },
        uniform: rng.chance(0.2),
    }
}

/// Density profile of sieve matrices: heavy low rows, sparse tail; planted dependencies,
/// duplicate and zero columns.
pub fn build(p: &GenParams) -> Spec {
    let mut rng = Rng::new(p.seed);
    let rows = p.rows;
    let ncols = rows + p.extra_cols;
    let mut cols: Vec<Vec<usize>> = Vec::with_capacity(ncols);
    let gen_col = |rng: &mut Rng| -> Vec<usize> {
        let mut c: Vec<usize> = vec![];
        if p.uniform {
            for _ in 0..p.tail_ones + 4 {
                c.push(rng.below(rows as u64) as usize);
            }
        } else {
            for r in 0..p.dense_rows.min(rows) {
                if rng.chance(p.dense_p) {
                    c.push(r);
                }
            }
            for _ in 0..p.tail_ones {
                c.push(rng.below(rows as u64) as usize);
            }
        }
        c.sort();
        // an index listed twice cancels over GF(2): keep parity only
        let mut out: Vec<usize> = vec![];
        for x in c {
            if out.last() == Some(&x) {
                out.pop();
            } else {
                out.push(x);
            }
        }
        out
    };
    while cols.len() < ncols {
        let left = ncols - cols.len();
        let kind = rng.below(100);
        if kind < 3 && p.zero_cols > 0 && left > 0 {
            cols.push(vec![]);
        } else if kind < 10 && p.dup_cols > 0 && !cols.is_empty() {
            let k = rng.below(cols.len() as u64) as usize;
            cols.push(cols[k].clone());
        } else if kind < 18 && p.planted > 0 && cols.len() >= 3 {
            // planted dependency: xor of 2-3 earlier columns
            let mut acc: Vec<usize> = vec![];
            for _ in 0..rng.range(2, 3) {
                let k = rng.below(cols.len() as u64) as usize;
                acc = xor_sorted(&acc, &cols[k]);
            }
            cols.push(acc);
        } else {
            cols.push(gen_col(&mut rng));
        }
    }
    Spec {
        rows,
        cols,
        kind: if p.uniform { "uniform".into() } else { "sieve_profile".into() },
        gen_seed: p.seed,
    }
}

fn xor_sorted(a: &[usize], b: &[usize]) -> Vec<usize> {
    let (mut i, mut j) = (0, 0);
    let mut out = vec![];
    while i < a.len() || j < b.len() {
        if j >= b.len() || (i < a.len() && a[i] < b[j]) {
            out.push(a[i]);
            i += 1;
        } else if i >= a.len() || b[j] < a[i] {
            out.push(b[j]);
            j += 1;
        } else {
            i += 1;
            j += 1;
        }
    }
    out
}

/// M*v over GF(2), computed from the column lists (xor of the selected columns).
pub fn in_kernel(spec: &Spec, v: &BitVec) -> bool {
    let mut acc = vec![0u64; (spec.rows + 63) / 64];
    for i in v.clone().into_usizes() {
        if i >= spec.cols.len() {
            return false;
        }
        for &r in &spec.cols[i] {
            acc[r / 64] ^= 1 << (r % 64);
        }
    }
    acc.iter().all(|&w| w == 0)
}

/// Rank of the matrix by the harness' own elimination (columns as bit rows).
pub fn own_rank(spec: &Spec) -> usize {
    let w = (spec.rows + 63) / 64;
    let mut m: Vec<Vec<u64>> = spec
        .cols
        .iter()
        .map(|c| {
            let mut v = vec![0u64; w];
            for &r in c {
                v[r / 64] ^= 1 << (r % 64);
            }
            v
        })
        .collect();
    let mut rank = 0;
    for bit in 0..spec.rows {
        let (wi, bi) = (bit / 64, bit % 64);
        let Some(p) = (rank..m.len()).find(|&i| (m[i][wi] >> bi) & 1 == 1) else {
            continue;
        };
        m.swap(rank, p);
        let pivot = m[rank].clone();
        for i in 0..m.len() {
            if i != rank && (m[i][wi] >> bi) & 1 == 1 {
                for k in wi..w {
                    m[i][k] ^= pivot[k];
                }
            }
        }
        rank += 1;
        if rank == m.len() {
            break;
        }
    }
    rank
}

fn independent(vs: &[BitVec], n: usize) -> bool {
    let w = (n + 63) / 64;
    let mut m: Vec<Vec<u64>> = vs
        .iter()
        .map(|v| {
            let mut r = vec![0u64; w];
            for i in v.clone().into_usizes() {
                r[i / 64] |= 1 << (i % 64);
            }
            r
        })
        .collect();
    let mut rank = 0;
    for bit in 0..n {
        let (wi, bi) = (bit / 64, bit % 64);
        let Some(p) = (rank..m.len()).find(|&i| (m[i][wi] >> bi) & 1 == 1) else {
            continue;
        };
        m.swap(rank, p);
        let pivot = m[rank].clone();
        for i in rank + 1..m.len() {
            if (m[i][wi] >> bi) & 1 == 1 {
                for k in wi..w {
                    m[i][k] ^= pivot[k];
                }
            }
        }
        rank += 1;
    }
    rank == vs.len()
}

pub struct RunOut {
    pub sim: SimOutcome,
    pub vectors: Option<Vec<BitVec>>,
}

pub fn run_lanczos(spec: &Spec, cfg: SimConfig) -> RunOut {
    let mat = SparseMat {
        k: spec.rows,
        cols: spec.cols.clone(),
    };
    let (sim, out) = run_sim(cfg, move || kernel_lanczos(&mat, Verbosity::Silent));
    RunOut { sim, vectors: out }
}

fn judge(spec: &Spec, out: &RunOut) -> Vec<(String, String, String)> {
    let mut v = vec![];
    if out.sim.rng_cut {
        return v; // the seam cut an endless stream: run discarded (termination is not part of C14)
    }
    match &out.sim.end {
        RunEnd::Completed | RunEnd::WallLimit => {}
        RunEnd::Panic { message, location } => v.push((
            "lanczos_no_panic".to_string(),
            format!("panic@{location}"),
            message.chars().take(300).collect(),
        )),
        RunEnd::Deadlock(m) => v.push(("terminates".into(), "deadlock".into(), m.chars().take(200).collect())),
        RunEnd::Livelock => v.push(("terminates".into(), "livelock".into(), "step cap exceeded".into())),
    }
    if let Some(vs) = &out.vectors {
        for (i, x) in vs.iter().enumerate() {
            if x.none() {
                v.push((
                    "vector_nonzero".into(),
                    "oracle:zero_vector".into(),
                    format!("Lanczos returned a zero vector (index {i} of {})", vs.len()),
                ));
                break;
            }
            if x.len() != spec.cols.len() {
                v.push((
                    "vector_shape".into(),
                    "oracle:wrong_length".into(),
                    format!("vector {i} has length {} but the matrix has {} columns", x.len(), spec.cols.len()),
                ));
                break;
            }
            if !in_kernel(spec, x) {
                v.push((
                    "vector_in_kernel".into(),
                    "oracle:not_in_kernel".into(),
                    format!("Lanczos vector {i} of {} is not annihilated by the matrix ({} rows x {} columns)", vs.len(), spec.rows, spec.cols.len()),
                ));
                break;
            }
        }
    }
    v
}

fn replay_json(gp: &GenParams, cfg: &SimConfig, out: &RunOut, seed: u64, idx: u64, sub: u64) -> Value {
    json!({
        "family": "lanczos",
        "property": "C14",
        "verif_seed": seed,
        "scenario_index": idx,
        "sub_run": sub,
        "scenario": gp.to_json(),
        "sim": cfg_to_json(cfg),
        "trace": {"preemptions": [], "stale_loads": [], "fs_faults": [], "slow": []},
        "observed": {
            "end": out.sim.end.class(),
            "vectors": out.vectors.as_ref().map(|v| v.len()),
            "rng_words_drawn": out.sim.rng_draws,
        },
    })
}

impl Family for LanczosFamily {
    fn name(&self) -> &'static str {
        "lanczos"
    }

    fn rule(&self, _prop: &str, tier: Tier) -> String {
        format!(
            "family lanczos/C14/{}: base scenario i = GF(2) matrix with the density profile of sieve matrices (dense first 32-100 rows, sparse tail) or uniform, \
             100..{} rows (a quarter of the scenarios: 100-300 rows, or a row count on / next to a 64-bit word or 256-bit block boundary: 128, 192, 256, 320, 384, 512, 768, 1024, 1280, 2048, +-1), 0-100 extra columns, planted dependencies, duplicate and zero columns, regenerated exactly from its seed; for each matrix {} runs of \
             kernel_lanczos, each with its own stream for the rand::thread_rng seam: fair, or biased for a prefix of the draws (low Hamming weight, repeated words, \
             zeroed lanes), or all-zero (cut off by the seam's draw budget and discarded). Every returned vector is checked non-zero and M*v = 0 with the harness' own xor of columns. \
             kernel_gauss runs on matrices up to 1200 columns as reference (independent family of size columns - rank, rank by the harness' own elimination). \
             Distinct = distinct (matrix seed, rng stream seed, bias); non-trivial = Lanczos returned at least one vector.",
            tier.name(),
            if tier == Tier::Quick { 2500 } else { 6000 },
            if tier == Tier::Quick { 8 } else { 24 }
        )
    }

    fn count(&self, _prop: &str, tier: Tier) -> u64 {
        match tier {
            Tier::Quick => 1600,
            Tier::Thorough => 5000,
        }
    }

    fn describe(&self, prop: &str, tier: Tier, seed: u64, idx: u64) -> Value {
        let mut rng = Rng::new(derive(seed, prop, idx, "scenario"));
        gen_params(&mut rng, tier).to_json()
    }

    fn run(&self, prop: &str, tier: Tier, seed: u64, idx: u64) -> Report {
        let mut rep = Report::new(idx);
        let mut rng = Rng::new(derive(seed, prop, idx, "scenario"));
        let gp = gen_params(&mut rng, tier);
        let spec = build(&gp);
        rep.sample = gp.to_json();
        crate::common::phase(idx, "subruns");
        // Gauss as reference (deterministic; not a simulation result)
        if spec.cols.len() <= 1200 {
            let size = spec.rows;
            let dense: Vec<BitVec> = spec
                .cols
                .iter()
                .map(|c| {
                    let mut v = BitVec::zeros(size);
                    for &r in c {
                        v.set(r, true);
                    }
                    v
                })
                .collect();
            let ker = kernel_gauss(dense);
            let rank = own_rank(&spec);
            rep.stat("gauss_reference_runs", 1);
            let mut bad = None;
            if ker.len() != spec.cols.len() - rank {
                bad = Some(format!("kernel_gauss returned {} vectors, columns - rank = {}", ker.len(), spec.cols.len() - rank));
            } else if ker.iter().any(|v| v.none() || !in_kernel(&spec, v)) {
                bad = Some("kernel_gauss returned a zero vector or a vector outside the kernel".into());
            } else if !independent(&ker, spec.cols.len()) {
                bad = Some("kernel_gauss returned a dependent family".into());
            }
            if let Some(m) = bad {
                // deterministic (input-only) disagreement: recorded, not an alarm of this check
                rep.stat("gauss_reference_disagreements", 1);
                rep.reference_failed = Some(format!("gauss reference: {m}"));
            }
            rep.stat("gauss_kernel_dimension_total", ker.len() as u64);
        }
        let nsub = if tier == Tier::Quick { 8 } else { 24 };
        for j in 0..nsub {
            let mut r = Rng::new(derive(seed, prop, idx, "sub") ^ mix(&[j]));
            let mut cfg = SimConfig::reference(r.next_u64());
            cfg.seed_rng = r.next_u64();
            let ny = spec.cols.len() as u64;
            cfg.rng_draw_budget = 60 * ny + 1000;
            cfg.rng_bias = match r.weighted(&[5, 3, 3, 3, 1]) {
                0 => RngBias::Fair,
                1 => RngBias::LowWeight { prefix: r.range(1, 3) * ny },
                2 => RngBias::Repeated { prefix: r.range(1, 3) * ny },
                3 => RngBias::ZeroLanes { prefix: r.range(1, 3) * ny },
                _ => RngBias::AllZero,
            };
            let out = run_lanczos(&spec, cfg.clone());
            let biased = out.sim.fault_counts.get("biased_rng_word").copied().unwrap_or(0) > 0;
            rep.evaluations += 1;
            rep.sim_clock += out.sim.clock;
            rep.steps += out.sim.steps;
            if biased {
                rep.fault_runs += 1;
            } else {
                rep.fault_free_runs += 1;
            }
            for (k, v) in &out.sim.fault_counts {
                *rep.fault_fired.entry(k.to_string()).or_insert(0) += v;
                if *v > 0 {
                    *rep.fault_runs_by_kind.entry(k.to_string()).or_insert(0) += 1;
                }
            }
            let nvec = out.vectors.as_ref().map(|v| v.len()).unwrap_or(0);
            if out.sim.rng_cut {
                rep.stat("runs_cut_by_draw_budget", 1);
                rep.trivial_runs += 1;
            } else if nvec > 0 {
                rep.fingerprints.push(mix(&[gp.seed, cfg.seed_rng, r.next_u64()]));
            } else {
                rep.trivial_runs += 1;
            }
            rep.stat("vectors_checked", nvec as u64);
            if !out.sim.rng_cut && out.vectors.is_some() && spec.cols.len() > spec.rows {
                // more columns than rows: the kernel is certainly non-trivial
                rep.stat("runs_on_matrices_with_more_columns_than_rows", 1);
                if nvec == 0 {
                    rep.stat("of_which_lanczos_returned_no_vector", 1);
                    if !biased {
                        rep.stat("of_which_lanczos_returned_no_vector_with_a_fair_stream", 1);
                    }
                }
            }
            rep.stat("rng_words_drawn", out.sim.rng_draws);
            let attempts = out.sim.rng_draws / ny.max(1);
            if attempts > 1 {
                rep.stat("genblock_retries", attempts - 1);
            }
            for (oracle, class, message) in judge(&spec, &out) {
                rep.violations.push(Violation {
                    property: "C14".into(),
                    oracle,
                    class,
                    message,
                    replay: replay_json(&gp, &cfg, &out, seed, idx, j + 1),
                });
            }
        }
        rep
    }

    fn replay(&self, replay: &Value) -> Vec<Violation> {
        let gp = GenParams::from_json(&replay["scenario"]);
        let spec = build(&gp);
        let cfg = cfg_from_json(&replay["sim"]);
        let out = run_lanczos(&spec, cfg);
        judge(&spec, &out)
            .into_iter()
            .map(|(oracle, class, message)| Violation {
                property: "C14".into(),
                oracle,
                class,
                message,
                replay: replay.clone(),
            })
            .collect()
    }

    fn simplify(&self, replay: &Value) -> Vec<Value> {
        // simpler matrices: no duplicate / zero / planted columns, fewer rows
        let mut c = vec![];
        for k in ["dup_cols", "zero_cols", "planted", "extra_cols"] {
            if replay["scenario"][k].as_u64().unwrap_or(0) > 0 {
                let mut r = replay.clone();
                r["scenario"][k] = json!(0);
                c.push(r);
            }
        }
        let rows = replay["scenario"]["rows"].as_u64().unwrap_or(0);
        if rows > 400 {
            let mut r = replay.clone();
            r["scenario"]["rows"] = json!(rows / 2);
            c.push(r);
        }
        if replay["sim"]["rng_bias"]["kind"] != json!("fair") {
            let mut r = replay.clone();
            r["sim"]["rng_bias"] = json!({"kind": "fair"});
            c.push(r);
        }
        c
    }

    fn components(&self) -> Value {
        json!({
            "real_code": ["yamaquasi::matrix::gf2::{kernel_lanczos, genblock, qs_optimize, SmallMat rank/rank_reverse/pseudoinverse, kernel_gauss}", "bitvec_simd", "wide"],
            "models": ["rand::thread_rng -> simulator stream (fair or biased)"],
            "no_threads": "this family has a single simulated thread; the only nondeterminism is the random source",
        })
    }
}
