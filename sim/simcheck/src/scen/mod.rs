pub mod clsabort;
pub mod clsgrp;
pub mod clsthreads;
pub mod factor;
pub mod lanczos;
pub mod lattice;
pub mod multicaller;
pub mod relstore;
