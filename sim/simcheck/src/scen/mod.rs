pub mod factor;
