pub mod factor;
pub mod lattice;
pub mod relstore;
