pub mod clsabort;
pub mod clsgrp;
pub mod factor;
pub mod lanczos;
pub mod lattice;
pub mod relstore;
