//! Scenario family `classgroup` (C18): class group computation under simulated worker counts,
//! interleavings and faults on the relation file, checked against independent form arithmetic
//! and an independent reduced-form count.

use crate::common::{Family, Report, Tier, Violation};
use crate::oracles::forms::{class_number_by_counting, factor_u128, prime_form, FInt, Form};
use crate::oracles::primes::gen_prime;
use crate::scen::factor::gen_sim_cfg;
use crate::simjson::{cfg_from_json, cfg_to_json, plan_from_json, trace_to_json};
use bnum::types::I512;
use serde_json::{json, Value};
use simcore::prng::{derive, mix, Rng};
use simcore::{run_sim, AbortPlan, RunEnd, SimConfig, SimOutcome};
use std::collections::BTreeMap;
use std::path::PathBuf;
use yamaquasi::{Int, Preferences, Verbosity};

pub struct ClsgrpFamily;

#[derive(Clone, Debug)]
pub struct Spec {
    /// |D|, D = -dabs fundamental
    pub dabs: u128,
    pub primes: Vec<u128>,
    pub kind: String,
    pub use_double: Option<bool>,
    pub large_factor: Option<u64>,
    pub fb_size: Option<u32>,
}

impl Spec {
    pub fn to_json(&self) -> Value {
        json!({
            "use_double": self.use_double,
            "large_factor": self.large_factor,
            "fb_size": self.fb_size,
            "d": format!("-{}", self.dabs),
            "bits": 128 - self.dabs.leading_zeros(),
            "dabs_prime_factors": self.primes.iter().map(|p| p.to_string()).collect::<Vec<_>>(),
            "kind": self.kind,
        })
    }
    pub fn from_json(v: &Value) -> Spec {
        Spec {
            dabs: v["d"].as_str().unwrap().trim_start_matches('-').parse().unwrap(),
            primes: v["dabs_prime_factors"]
                .as_array()
                .map(|a| a.iter().map(|p| p.as_str().unwrap().parse().unwrap()).collect())
                .unwrap_or_default(),
            kind: v["kind"].as_str().unwrap_or("").to_string(),
            use_double: v["use_double"].as_bool(),
            large_factor: v["large_factor"].as_u64(),
            fb_size: v["fb_size"].as_u64().map(|x| x as u32),
        }
    }
}

/// Fundamental discriminants built from distinct primes chosen here.
pub fn gen_spec(rng: &mut Rng, tier: Tier) -> Spec {
    let bits = match (tier, rng.weighted(&[55, 12, 33])) {
        (_, 0) => rng.range(33, 44),
        (_, 1) => rng.range(20, 32),
        (Tier::Quick, _) => rng.range(45, 64),
        (Tier::Thorough, _) => {
            if rng.chance(0.25) {
                rng.range(65, 110)
            } else {
                rng.range(45, 64)
            }
        }
    } as u32;
    gen_spec_bits(rng, bits)
}

pub fn gen_spec_bits(rng: &mut Rng, bits: u32) -> Spec {
    let mut outer = 0u64;
    loop {
        outer += 1;
        if outer % 100000 == 0 && std::env::var("VERIF_TRACE").is_ok() {
            eprintln!("clsgrp gen: {outer} attempts, bits={bits}");
        }
        let kind = rng.below(3);
        // odd part: 1-4 distinct odd primes
        let k = rng.range(1, 4) as u32;
        let avail = if kind == 2 { bits.saturating_sub(3) } else if kind == 1 { bits.saturating_sub(2) } else { bits };
        let k = k.min((avail / 4).max(1));
        let mut primes: Vec<u128> = vec![];
        let mut left = avail;
        for i in 0..k {
            let b = if i == k - 1 { left } else { (left / (k - i)).max(3) + rng.below(3) as u32 };
            let b = b.clamp(2, 100).min(left.max(2));
            let mut tries = 0;
            let p = loop {
                tries += 1;
                let p = gen_prime(rng, b.max(2));
                if p != 2 && !primes.contains(&p) {
                    break p;
                }
                if b <= 3 || tries > 40 {
                    break 0;
                }
            };
            if p == 0 {
                break;
            }
            primes.push(p);
            left = left.saturating_sub(b);
        }
        if primes.is_empty() {
            continue;
        }
        let prod: u128 = primes.iter().product();
        let (dabs, name) = match kind {
            0 => {
                // D = -prod = 1 mod 4  <=>  prod = 3 mod 4
                if prod % 4 != 3 {
                    continue;
                }
                (prod, "D=1mod4")
            }
            1 => {
                // D = 4m, m = -prod = 3 mod 4 <=> prod = 1 mod 4
                if prod % 4 != 1 {
                    continue;
                }
                (4 * prod, "D=4m,m=3mod4")
            }
            _ => (8 * prod, "D=4m,m=2mod4"),
        };
        if dabs < 1 << 12 {
            continue;
        }
        primes.sort();
        // preference knobs: double large primes are off by default below 180 bits
        let use_double = if rng.chance(0.35) { Some(true) } else { None };
        let large_factor = if rng.chance(0.4) { Some(*rng.pick(&[2u64, 10, 50, 200])) } else { None };
        // a factor base above 800 primes switches the group structure to the sparse path, whose CRT determinant
        // and lattice index run on the thread pool
        let fb_size = if bits >= 40 && rng.chance(0.04) { Some(rng.range(820, 1000) as u32) } else { None };
        return Spec {
            dabs,
            primes,
            kind: name.to_string(),
            use_double,
            large_factor,
            fb_size,
        };
    }
}

#[derive(Clone, Debug, PartialEq)]
pub struct Group {
    pub h: u128,
    pub invariants: Vec<u128>,
    pub gens: Vec<(u32, Vec<u128>)>,
}

pub struct RunOut {
    pub sim: SimOutcome,
    /// None: run did not complete; Some(None): classgroup() returned None
    pub group: Option<Option<Group>>,
    pub files: BTreeMap<PathBuf, Vec<u8>>,
    pub hard_error: bool,
}

fn scratch_dir() -> PathBuf {
    let base = std::env::var("VERIF_SCRATCH").unwrap_or_else(|_| "/verif/sim/scratch".to_string());
    let d = PathBuf::from(base).join(format!("cls-{}", std::process::id()));
    let _ = std::fs::create_dir_all(&d);
    d
}

pub fn run_cls(spec: &Spec, threads: Option<usize>, with_pred: bool, cfg: SimConfig) -> RunOut {
    let dabs = spec.dabs;
    let (use_double, large_factor, fb_size) = (spec.use_double, spec.large_factor, spec.fb_size);
    let dir = scratch_dir();
    let dir2 = dir.clone();
    let (sim, res) = run_sim(cfg, move || {
        let d = -Int::from(dabs as i128);
        let mut prefs = Preferences::default();
        prefs.verbosity = Verbosity::Silent;
        prefs.outdir = Some(dir2);
        prefs.use_double = use_double;
        prefs.large_factor = large_factor;
        prefs.fb_size = fb_size;
        if with_pred {
            prefs.should_abort = Some(Box::new(simcore::probe::abort_poll));
        }
        let pool = match threads {
            None | Some(1) => None,
            Some(t) => Some(rayon::ThreadPoolBuilder::new().num_threads(t).build().unwrap()),
        };
        let g = yamaquasi::classgroup::classgroup(&d, &prefs, pool.as_ref());
        g.map(|g| Group {
            h: {
                let dg = g.h.digits();
                (dg[0] as u128) | ((dg[1] as u128) << 64)
            },
            invariants: g.invariants.clone(),
            gens: g.gens.clone(),
        })
    });
    RunOut {
        sim,
        group: res,
        files: simcore::fs::snapshot(),
        hard_error: simcore::fs::hard_error_seen(),
    }
}

// ---------------------------------------------------------------------------------------------
// Oracles

struct FormCtx<T: FInt> {
    d: T,
    dabs: u128,
    cache: BTreeMap<u64, Option<Form<T>>>,
}

impl<T: FInt> FormCtx<T> {
    fn prime(&mut self, p: u64) -> Option<Form<T>> {
        if let Some(f) = self.cache.get(&p) {
            return *f;
        }
        let dm = ((p as u128) - (self.dabs % p as u128)) % p as u128;
        let d16 = (16 - (self.dabs % 16)) % 16;
        let f = prime_form(self.d, dm as u64, d16 as u64, p);
        self.cache.insert(p, f);
        f
    }
    /// product of the signed primes of a relation line
    fn line_product(&mut self, toks: &[i64]) -> Result<Form<T>, String> {
        let mut acc = Form::identity(self.d);
        for &t in toks {
            let p = t.unsigned_abs();
            let Some(f) = self.prime(p) else {
                return Err(format!("{p} is not the norm of a prime form of discriminant -{}", self.dabs));
            };
            let f = if t < 0 { f.inverse() } else { f };
            acc = acc.compose(&f);
        }
        Ok(acc)
    }
}

fn parse_lines(data: &[u8]) -> Result<Vec<Vec<i64>>, String> {
    let text = std::str::from_utf8(data).map_err(|_| "relations.sieve is not UTF-8".to_string())?;
    if !text.is_empty() && !text.ends_with('\n') {
        return Err("relations.sieve does not end with a newline (torn last line)".into());
    }
    let mut out = vec![];
    for (i, line) in text.lines().enumerate() {
        let mut toks = vec![];
        for t in line.split(' ') {
            match t.parse::<i64>() {
                Ok(v) if v != 0 && v.unsigned_abs() >= 2 => toks.push(v),
                _ => return Err(format!("line {} of relations.sieve does not parse: {:?}", i + 1, line.chars().take(80).collect::<String>())),
            }
        }
        if toks.is_empty() {
            return Err(format!("line {} of relations.sieve is empty", i + 1));
        }
        out.push(toks);
    }
    Ok(out)
}

fn parse_extra(data: &[u8]) -> BTreeMap<u32, Vec<u128>> {
    let mut m = BTreeMap::new();
    if let Ok(text) = std::str::from_utf8(data) {
        for line in text.lines() {
            let mut it = line.split(' ');
            let Some(p) = it.next().and_then(|x| x.parse::<u32>().ok()) else { continue };
            let v: Vec<u128> = it.filter_map(|x| x.parse::<u128>().ok()).collect();
            m.insert(p, v);
        }
    }
    m
}

/// rank over F_l of the rows (vectors of length n)
fn rank_mod(rows: &[Vec<u128>], n: usize, l: u128) -> usize {
    let mut m: Vec<Vec<u128>> = rows.iter().map(|r| r.iter().map(|x| x % l).collect()).collect();
    let mut rank = 0;
    for col in 0..n {
        let Some(p) = (rank..m.len()).find(|&i| m[i][col] != 0) else { continue };
        m.swap(rank, p);
        let inv = crate::oracles::primes::powmod(m[rank][col], l - 2, l);
        for j in 0..n {
            m[rank][j] = crate::oracles::primes::mulmod(m[rank][j], inv, l);
        }
        let pivot = m[rank].clone();
        for i in 0..m.len() {
            if i != rank && m[i][col] != 0 {
                let f = m[i][col];
                for j in 0..n {
                    let s = crate::oracles::primes::mulmod(f, pivot[j], l);
                    m[i][j] = (m[i][j] + l - s) % l;
                }
            }
        }
        rank += 1;
        if rank == n {
            break;
        }
    }
    rank
}

thread_local! {
    static H_CACHE: std::cell::RefCell<BTreeMap<u64, u64>> = const { std::cell::RefCell::new(BTreeMap::new()) };
}

fn cached_class_number(dabs: u64) -> u64 {
    if let Some(h) = H_CACHE.with(|c| c.borrow().get(&dabs).copied()) {
        return h;
    }
    let h = class_number_by_counting(dabs);
    H_CACHE.with(|c| {
        let mut c = c.borrow_mut();
        if c.len() > 64 {
            c.clear();
        }
        c.insert(dabs, h);
    });
    h
}

pub struct Judged {
    pub violations: Vec<(String, String, String)>,
    pub lines_checked: u64,
    pub h_counted: bool,
    pub order_tests: u64,
}

fn check_group<T: FInt>(
    spec: &Spec,
    d: T,
    g: &Group,
    files: &BTreeMap<PathBuf, Vec<u8>>,
    count_limit_bits: u32,
    seed: u64,
) -> Judged {
    let mut v: Vec<(String, String, String)> = vec![];
    let mut ctx = FormCtx { d, dabs: spec.dabs, cache: BTreeMap::new() };
    let mut lines_checked = 0u64;
    let mut order_tests = 0u64;
    // G1: class number against the harness' own reduced-form count
    let bits = 128 - spec.dabs.leading_zeros();
    let mut h_counted = false;
    if bits <= count_limit_bits {
        let h = cached_class_number(spec.dabs as u64) as u128;
        h_counted = true;
        if h != g.h {
            v.push((
                "G1_class_number".into(),
                "oracle:wrong_class_number".into(),
                format!("h(-{}) reported as {} but counting reduced forms gives {}", spec.dabs, g.h, h),
            ));
        }
    }
    // G2: every line of relations.sieve is trivial in the class group
    let rel_file = files.iter().find(|(p, _)| p.ends_with("relations.sieve"));
    let mut lines: Vec<Vec<i64>> = vec![];
    match rel_file {
        None => v.push(("G2_relation_file".into(), "oracle:relation_file_missing".into(), "relations.sieve was not written".into())),
        Some((_, data)) => match parse_lines(data) {
            Err(e) => v.push(("G2_relation_file".into(), "oracle:relation_file_corrupt".into(), e)),
            Ok(ls) => {
                for (i, toks) in ls.iter().enumerate() {
                    lines_checked += 1;
                    match ctx.line_product(toks) {
                        Err(e) => {
                            v.push(("G2_relation_trivial".into(), "oracle:relation_not_trivial".into(), format!("line {}: {e}", i + 1)));
                            break;
                        }
                        Ok(f) => {
                            if !f.is_identity(d) {
                                v.push((
                                    "G2_relation_trivial".into(),
                                    "oracle:relation_not_trivial".into(),
                                    format!("line {} of relations.sieve ({:?}) multiplies to the class of ({:?}), not to the principal class", i + 1, toks, f),
                                ));
                                break;
                            }
                        }
                    }
                }
                lines = ls;
            }
        },
    }
    // G3: structure. The sparse linear-algebra path (factor base above 800 primes or h above 2^128) returns the
    // class number only ("FIXME: structure is incomplete" in group_structure_sparse): nothing is listed, so there
    // is no structure to judge; G1, G2 and G5 still apply.
    let prod: u128 = g.invariants.iter().product();
    let no_structure = g.invariants.is_empty() && g.gens.is_empty() && g.h > 1;
    if prod != g.h && !no_structure {
        v.push((
            "G3_invariants_multiply_to_h".into(),
            "oracle:invariants_product".into(),
            format!("invariants {:?} multiply to {} but h = {}", g.invariants, prod, g.h),
        ));
    }
    if g.invariants.windows(2).any(|w| w[0] == 0 || w[1] == 0) || g.invariants.iter().any(|&x| x <= 1) {
        v.push(("G3_invariants_shape".into(), "oracle:invariants_shape".into(), format!("invariants {:?} contain 0 or 1", g.invariants)));
    }
    let n = g.invariants.len();
    let mut coords: BTreeMap<u32, Vec<u128>> = BTreeMap::new();
    for (p, c) in &g.gens {
        coords.insert(*p, c.clone());
    }
    if let Some((_, data)) = files.iter().find(|(p, _)| p.ends_with("group.structure.extra")) {
        for (p, c) in parse_extra(data) {
            coords.entry(p).or_insert(c);
        }
    }
    if coords.values().any(|c| c.len() != n) {
        v.push(("G3_coordinates_shape".into(), "oracle:coordinates_shape".into(), "a generator has a coordinate vector whose length differs from the number of invariants".into()));
        return Judged { violations: v, lines_checked, h_counted, order_tests };
    }
    if n > 0 && prod == g.h {
        // every relation line maps to 0
        'lines: for (i, toks) in lines.iter().enumerate() {
            let mut acc = vec![0u128; n];
            for &t in toks {
                let p = t.unsigned_abs() as u32;
                let Some(c) = coords.get(&p) else { continue 'lines };
                for k in 0..n {
                    let m = g.invariants[k];
                    let x = c[k] % m;
                    acc[k] = if t > 0 { (acc[k] + x) % m } else { (acc[k] + m - x) % m };
                }
            }
            if acc.iter().any(|&x| x != 0) {
                v.push((
                    "G3_relations_map_to_zero".into(),
                    "oracle:coordinates_inconsistent".into(),
                    format!("relation line {} maps to {:?} modulo the invariants {:?}, not to 0", i + 1, acc, g.invariants),
                ));
                break;
            }
        }
        // surjectivity: modulo every prime l | h, the coordinates span (Z/l)^(#invariants divisible by l)
        let rows: Vec<Vec<u128>> = coords.values().cloned().collect();
        for (l, _) in factor_u128(g.h) {
            let idxs: Vec<usize> = (0..n).filter(|&k| g.invariants[k] % l == 0).collect();
            let sub: Vec<Vec<u128>> = rows.iter().map(|r| idxs.iter().map(|&k| r[k]).collect()).collect();
            let rk = rank_mod(&sub, idxs.len(), l);
            if rk != idxs.len() {
                v.push((
                    "G3_coordinates_generate".into(),
                    "oracle:coordinates_not_surjective".into(),
                    format!("modulo {l} the generator coordinates have rank {rk}, but {} invariants are divisible by {l}", idxs.len()),
                ));
                break;
            }
        }
        // kernel inclusion on samples: ord_Cl(x) divides ord(phi(x)) for generators and random combinations
        let order_of = |c: &[u128]| -> u128 {
            let mut o = 1u128;
            for k in 0..n {
                let m = g.invariants[k];
                let e = m / num_integer::gcd(m, c[k] % m);
                o = num_integer::lcm(o, e);
            }
            o
        };
        let gens: Vec<(u32, Vec<u128>)> = coords.iter().map(|(p, c)| (*p, c.clone())).collect();
        let mut rng = Rng::new(seed);
        let ntests = gens.len().min(12) + 8;
        for t in 0..ntests {
            let mut toks: Vec<i64> = vec![];
            if t < gens.len().min(12) {
                toks.push(gens[t].0 as i64);
            } else {
                for _ in 0..rng.range(2, 4) {
                    let (p, _) = &gens[rng.below(gens.len() as u64) as usize];
                    let e = rng.range(1, 3);
                    for _ in 0..e {
                        toks.push(if rng.chance(0.5) { *p as i64 } else { -(*p as i64) });
                    }
                }
            }
            let mut c = vec![0u128; n];
            for &tk in &toks {
                let cc = &coords[&(tk.unsigned_abs() as u32)];
                for k in 0..n {
                    let m = g.invariants[k];
                    c[k] = if tk > 0 { (c[k] + cc[k] % m) % m } else { (c[k] + m - cc[k] % m) % m };
                }
            }
            let o = order_of(&c);
            if let Ok(f) = ctx.line_product(&toks) {
                order_tests += 1;
                if !f.pow(o, d).is_identity(d) {
                    v.push((
                        "G3_structure_matches_forms".into(),
                        "oracle:structure_mismatch".into(),
                        format!("the element {:?} has order {o} in the reported group but its {o}-th power is not principal by form arithmetic", toks),
                    ));
                    break;
                }
            }
        }
    }
    // G5: h * [p] = 1 for every generator (always); without listed generators, for the primes of the relation file
    let g5_primes: Vec<u32> = if g.gens.is_empty() {
        let mut v: Vec<u32> = lines.iter().flat_map(|l| l.iter().map(|t| t.unsigned_abs() as u32)).collect();
        v.sort();
        v.dedup();
        v.truncate(16);
        v
    } else {
        g.gens.iter().take(16).map(|x| x.0).collect()
    };
    for p in g5_primes.iter() {
        if let Some(f) = ctx.prime(*p as u64) {
            if !f.pow(g.h, d).is_identity(d) {
                v.push((
                    "G5_h_annihilates".into(),
                    "oracle:h_does_not_annihilate".into(),
                    format!("[{p}]^h is not principal for the reported h = {}", g.h),
                ));
                break;
            }
        }
    }
    Judged { violations: v, lines_checked, h_counted, order_tests }
}

pub fn judge(spec: &Spec, reference: Option<&Group>, out: &RunOut, tier: Tier, aborted_allowed: bool, seed: u64) -> Judged {
    let mut j = Judged { violations: vec![], lines_checked: 0, h_counted: false, order_tests: 0 };
    let hard = out.hard_error;
    // C18 speaks about returned results only ("whenever the computation returns a result"): a run that
    // ends in a panic, deadlock or livelock returns nothing and is counted as a statistic by the caller,
    // not judged here (after an injected hard I/O error the library's unwrap()/expect() panics by design).
    let _ = hard;
    match &out.group {
        None => {}
        Some(None) => {
            if !aborted_allowed && out.sim.flip_step.is_none() {
                // classgroup() may return None only when aborted; a None without abort is a failure to answer,
                // which C18 does not forbid ("whenever it returns a result"): statistic only
            }
        }
        Some(Some(g)) => {
            if hard {
                j.violations.push((
                    "no_result_after_failed_write".into(),
                    "oracle:result_after_io_error".into(),
                    "classgroup() returned a result although a write to an output file had failed".into(),
                ));
            }
            let limit = if tier == Tier::Quick { 44 } else { 50 };
            let bits = 128 - spec.dabs.leading_zeros();
            let jj = if bits <= 60 {
                check_group::<i128>(spec, -(spec.dabs as i128), g, &out.files, limit, seed)
            } else {
                let d = -I512::from(spec.dabs);
                check_group::<I512>(spec, d, g, &out.files, limit, seed)
            };
            j.lines_checked = jj.lines_checked;
            j.h_counted = jj.h_counted;
            j.order_tests = jj.order_tests;
            j.violations.extend(jj.violations);
            // G4: differential against the reference run
            if let Some(r) = reference {
                if r.h != g.h || r.invariants != g.invariants {
                    j.violations.push((
                        "G4_same_as_reference".into(),
                        "oracle:differs_from_reference".into(),
                        format!("h={} invariants={:?}, but the single-threaded run gave h={} invariants={:?}", g.h, g.invariants, r.h, r.invariants),
                    ));
                }
            }
        }
    }
    j
}

fn replay_json(spec: &Spec, threads: Option<usize>, cfg: &SimConfig, out: &RunOut, reference: Option<&Group>, seed: u64, idx: u64, sub: u64, tier: Tier) -> Value {
    json!({
        "family": "classgroup",
        "property": "C18",
        "verif_seed": seed,
        "scenario_index": idx,
        "sub_run": sub,
        "tier": tier.name(),
        "scenario": spec.to_json(),
        "threads": threads,
        "sim": cfg_to_json(cfg),
        "trace": trace_to_json(&out.sim),
        "reference": reference.map(|r| json!({"h": r.h.to_string(), "invariants": r.invariants.iter().map(|x| x.to_string()).collect::<Vec<_>>()})),
        "observed": {
            "end": out.sim.end.class(),
            "h": out.group.as_ref().and_then(|g| g.as_ref()).map(|g| g.h.to_string()),
            "invariants": out.group.as_ref().and_then(|g| g.as_ref()).map(|g| g.invariants.iter().map(|x| x.to_string()).collect::<Vec<_>>()),
            "relation_file_bytes": out.files.iter().find(|(p, _)| p.ends_with("relations.sieve")).map(|(_, d)| d.len()),
            "hard_io_error_injected": out.hard_error,
        },
    })
}

impl Family for ClsgrpFamily {
    fn name(&self) -> &'static str {
        "classgroup"
    }

    fn rule(&self, _prop: &str, tier: Tier) -> String {
        format!(
            "family classgroup/C18/{}: base scenario i = negative fundamental discriminant built from distinct generator-chosen primes (D = 1 mod 4; D = 4m with m = 3 mod 4; m = 2 mod 4), \
             |D| in 2^33..2^44 (55%: exact class number by the harness' own reduced-form count), 2^20..2^32 (12%), 2^45..2^64{} ; outdir set so that relations.sieve and group.structure.extra are \
             produced on the simulated file system; reference = single-threaded fault-free run, then {} simulated runs with 1-8 workers, all claim policies and schedule strategies, stalls, slow workers, \
             short writes and EINTR on every write, and (separate configuration, 1 run in 8) a hard I/O error. Non-trivial = two simulated threads runnable at some step or a fault fired; distinct = distinct interleaving fingerprint.",
            tier.name(),
            if tier == Tier::Thorough { " (a quarter of those up to 2^110)" } else { "" },
            if tier == Tier::Quick { 8 } else { 24 }
        )
    }

    fn count(&self, _prop: &str, tier: Tier) -> u64 {
        match tier {
            Tier::Quick => 3000,
            Tier::Thorough => 16000,
        }
    }

    fn describe(&self, prop: &str, tier: Tier, seed: u64, idx: u64) -> Value {
        let mut rng = Rng::new(derive(seed, prop, idx, "scenario"));
        gen_spec(&mut rng, tier).to_json()
    }

    fn run(&self, prop: &str, tier: Tier, seed: u64, idx: u64) -> Report {
        let mut rep = Report::new(idx);
        let mut rng = Rng::new(derive(seed, prop, idx, "scenario"));
        let spec = gen_spec(&mut rng, tier);
        rep.sample = spec.to_json();
        rep.stat(&format!("kind_{}", spec.kind), 1);
        if spec.use_double == Some(true) {
            rep.stat("scenarios_with_double_large_primes", 1);
        }
        if spec.fb_size.is_some() {
            rep.stat("scenarios_with_sparse_group_structure_path", 1);
        }
        crate::common::phase(idx, "reference");
        let mut rcfg = SimConfig::reference(derive(seed, prop, idx, "reference"));
        rcfg.wall_limit_ms = Some(if tier == Tier::Quick { 15_000 } else { 60_000 });
        rcfg.step_cap = 5_000_000;
        let reference = run_cls(&spec, None, false, rcfg.clone());
        rep.absorb(&reference.sim, false);
        if reference.sim.end != RunEnd::Completed {
            rep.reference_failed = Some(format!("{} {}", reference.sim.end.class(), match &reference.sim.end {
                RunEnd::Panic { message, .. } => message.chars().take(100).collect::<String>(),
                _ => String::new(),
            }));
            return rep;
        }
        let rgroup = reference.group.clone().flatten();
        if rgroup.is_none() {
            rep.stat("reference_returned_none", 1);
        }
        // the absolute oracles judge the baseline run too
        let jr = judge(&spec, None, &reference, tier, false, derive(seed, prop, idx, "orders"));
        rep.stat("relation_lines_checked", jr.lines_checked);
        rep.stat("order_tests", jr.order_tests);
        if jr.h_counted {
            rep.stat("class_numbers_checked_by_counting", 1);
        }
        for (oracle, class, message) in jr.violations {
            rep.violations.push(Violation {
                property: "C18".into(),
                oracle,
                class,
                message,
                replay: replay_json(&spec, None, &rcfg, &reference, None, seed, idx, 0, tier),
            });
        }
        crate::common::phase(idx, "subruns");
        let nsub = if tier == Tier::Quick { 8 } else { 24 };
        let ref_steps = reference.sim.steps.max(200);
        for j in 0..nsub {
            let mut r = Rng::new(derive(seed, prop, idx, "sub") ^ mix(&[j]));
            let threads = *r.pick(&[Some(2usize), Some(2), Some(3), Some(4), Some(4), Some(8), Some(1), None]);
            let workers = threads.unwrap_or(1);
            let mut cfg = gen_sim_cfg(&mut r, ref_steps, workers, j % 4 != 0);
            cfg.abort = AbortPlan::Never;
            // I/O faults on the relation file
            let hard = j % 8 == 7;
            if hard {
                if r.chance(0.3) {
                    cfg.fs.create_fails = true;
                } else {
                    cfg.fs.hard_error_at_write = Some(r.range(1, 40));
                }
            } else if j % 2 == 1 {
                cfg.fs.short_write_prob = *r.pick(&[0.05, 0.3, 0.8]);
                cfg.fs.eintr_prob = *r.pick(&[0.0, 0.05, 0.3]);
            }
            let out = run_cls(&spec, threads, false, cfg.clone());
            rep.absorb(&out.sim, out.hard_error);
            rep.stat(&format!("threads_{}", threads.map(|t| t.to_string()).unwrap_or("none".into())), 1);
            if out.hard_error {
                rep.stat("runs_with_hard_io_error", 1);
                if matches!(out.sim.end, RunEnd::Panic { .. }) {
                    rep.stat("hard_io_error_runs_ending_in_library_panic", 1);
                }
            }
            if !out.hard_error {
                match &out.sim.end {
                    RunEnd::Panic { location, message } => {
                        rep.stat("runs_ending_in_library_panic_without_io_fault", 1);
                        rep.stat(&format!("panic_at_{}", location.trim_start_matches("src/")), 1);
                        let _ = message;
                    }
                    RunEnd::Deadlock(_) => rep.stat("runs_ending_in_deadlock", 1),
                    RunEnd::Livelock => rep.stat("runs_ending_in_livelock", 1),
                    _ => {}
                }
            }
            if let Some(None) = &out.group {
                rep.stat("runs_returning_none", 1);
            }
            let jj = judge(&spec, rgroup.as_ref(), &out, tier, false, derive(seed, prop, idx, "orders") ^ j);
            rep.stat("relation_lines_checked", jj.lines_checked);
            rep.stat("order_tests", jj.order_tests);
            if jj.h_counted {
                rep.stat("class_numbers_checked_by_counting", 1);
            }
            for (oracle, class, message) in jj.violations {
                rep.violations.push(Violation {
                    property: "C18".into(),
                    oracle,
                    class,
                    message,
                    replay: replay_json(&spec, threads, &cfg, &out, rgroup.as_ref(), seed, idx, j + 1, tier),
                });
            }
        }
        rep
    }

    fn replay(&self, replay: &Value) -> Vec<Violation> {
        let spec = Spec::from_json(&replay["scenario"]);
        let threads = replay["threads"].as_u64().map(|t| t as usize);
        let tier = if replay["tier"].as_str() == Some("thorough") { Tier::Thorough } else { Tier::Quick };
        let mut cfg = cfg_from_json(&replay["sim"]);
        cfg.replay = Some(plan_from_json(&replay["trace"]));
        let reference = if replay["reference"].is_null() {
            None
        } else {
            Some(Group {
                h: replay["reference"]["h"].as_str().unwrap_or("0").parse().unwrap_or(0),
                invariants: replay["reference"]["invariants"]
                    .as_array()
                    .map(|a| a.iter().map(|x| x.as_str().unwrap_or("0").parse().unwrap_or(0)).collect())
                    .unwrap_or_default(),
                gens: vec![],
            })
        };
        let out = run_cls(&spec, threads, false, cfg);
        let seed = replay["verif_seed"].as_u64().unwrap_or(0);
        let idx = replay["scenario_index"].as_u64().unwrap_or(0);
        let sub = replay["sub_run"].as_u64().unwrap_or(0);
        let oseed = derive(seed, "C18", idx, "orders") ^ if sub == 0 { 0 } else { sub - 1 };
        judge(&spec, reference.as_ref(), &out, tier, false, oseed)
            .violations
            .into_iter()
            .map(|(oracle, class, message)| {
                let mut r = replay.clone();
                r["trace"] = trace_to_json(&out.sim);
                r["observed"]["end"] = json!(out.sim.end.class());
                Violation {
                    property: "C18".into(),
                    oracle,
                    class,
                    message,
                    replay: r,
                }
            })
            .collect()
    }

    fn simplify(&self, replay: &Value) -> Vec<Value> {
        let mut c = vec![];
        if let Some(t) = replay["threads"].as_u64() {
            for nt in [2u64, 3, 4] {
                if nt < t {
                    let mut r = replay.clone();
                    r["threads"] = json!(nt);
                    c.push(r);
                }
            }
        }
        if replay["sim"]["claim_policy"] != json!("in_order") {
            let mut r = replay.clone();
            r["sim"]["claim_policy"] = json!("in_order");
            c.push(r);
        }
        c
    }

    fn components(&self) -> Value {
        json!({
            "real_code": ["yamaquasi::classgroup::classgroup (sieve, sign rule), relationcls::{CRelationSet (spanning tree, emit), group_structure dense+sparse, SmithNormalForm}, siqs polynomial code, matrix::{intdense,intsparse}"],
            "models": ["rayon -> simrayon", "std::sync -> simsync", "std::fs in relationcls.rs -> simfs (in-memory, short writes / EINTR / hard errors injected)", "OS threads -> coroutines under the simulator's seeded scheduler"],
            "left_real": ["classgroup.rs' own create_dir_all / fs::write of args.json (fully qualified std paths, no hook): they go to a scratch directory under /verif/sim/scratch"],
            "not_run": ["src/bin/ymcls.rs (group.structure and stdout are written there with write(), not write_all(); no seam)"],
        })
    }
}
