//! Parent process: fans scenarios out to worker processes, watches them, aggregates, triages
//! violations (known findings, minimisation, replay confirmation) and writes the evidence.

use crate::common::{Family, Report, Tier, Violation};
use crate::minimise;
use serde_json::{json, Value};
use std::collections::{BTreeMap, HashSet};
use std::io::{BufRead, BufReader};
use std::path::{Path, PathBuf};
use std::process::{Child, Command, Stdio};
use std::sync::mpsc;
use std::time::{Duration, Instant};

pub const SECOND_OFFSET: u64 = 1_000_000_000;

pub struct CheckArgs {
    pub second_fraction: u64,
    /// (executable, profile name) of a second build profile to run a quarter of the budget under
    pub second: Option<(PathBuf, String)>,
    pub prop: String,
    pub tier: Tier,
    pub seed: u64,
    pub jobs: usize,
    pub verif_dir: PathBuf,
    pub profile: String,
    pub count_override: Option<u64>,
    pub level: String,
    pub extra_assumptions: Vec<String>,
}

enum Msg {
    Begin(usize, u64),
    Phase(usize, String),
    Report(usize, Box<Report>),
    Eof(usize),
}

struct Worker {
    child: Child,
    current: Option<(u64, Instant)>,
    phase: String,
    next_start: u64,
    done: bool,
}

fn spawn_worker(exe: &Path, a: &CheckArgs, slot: usize, start: u64, end: u64, stride: u64, tx: mpsc::Sender<Msg>) -> Child {
    let mut child = Command::new(exe)
        .arg("worker")
        .arg(&a.prop)
        .arg("--tier")
        .arg(a.tier.name())
        .arg("--seed")
        .arg(a.seed.to_string())
        .arg("--start")
        .arg(start.to_string())
        .arg("--end")
        .arg(end.to_string())
        .arg("--stride")
        .arg(stride.to_string())
        .stdin(Stdio::null())
        .stdout(Stdio::piped())
        .stderr(Stdio::null())
        .spawn()
        .expect("cannot spawn worker");
    let out = child.stdout.take().unwrap();
    std::thread::spawn(move || {
        let rd = BufReader::new(out);
        for line in rd.lines() {
            let Ok(line) = line else { break };
            if let Some(rest) = line.strip_prefix("BEGIN ") {
                if let Ok(i) = rest.trim().parse::<u64>() {
                    let _ = tx.send(Msg::Begin(slot, i));
                }
            } else if let Some(rest) = line.strip_prefix("PHASE ") {
                let name = rest.split_whitespace().nth(1).unwrap_or("").to_string();
                let _ = tx.send(Msg::Phase(slot, name));
            } else if let Some(rest) = line.strip_prefix("REPORT ") {
                if let Ok(v) = serde_json::from_str::<Value>(rest) {
                    let _ = tx.send(Msg::Report(slot, Box::new(Report::from_json(&v))));
                }
            }
        }
        let _ = tx.send(Msg::Eof(slot));
    });
    child
}

/// Signature used to match a violation against /verif/known_findings.json.
fn finding_matches(f: &Value, v: &Violation) -> bool {
    if f["status"].as_str() != Some("known") {
        return false; // "fixed" entries suppress nothing
    }
    if f["property"].as_str() != Some(&v.property) {
        return false;
    }
    if let Some(c) = f["class"].as_str() {
        if c != v.class {
            return false;
        }
    }
    // every key of "match" must equal the same path in the replay description
    if let Some(m) = f["match"].as_object() {
        for (k, want) in m {
            let mut cur = &v.replay;
            for part in k.split('.') {
                cur = &cur[part];
            }
            // an array in the finding means "any of these values"
            let ok = match want.as_array() {
                Some(alts) if !cur.is_array() => alts.iter().any(|a| a == cur),
                _ => cur == want,
            };
            if !ok {
                return false;
            }
        }
    }
    true
}

/// Run a command to completion, killing it after `limit` (reported as signal 9).
fn output_with_timeout(cmd: &mut Command, limit: Duration) -> std::io::Result<std::process::Output> {
    let mut child = cmd.spawn()?;
    let mut out = child.stdout.take();
    let reader = std::thread::spawn(move || {
        let mut buf = Vec::new();
        if let Some(o) = out.as_mut() {
            use std::io::Read;
            let _ = o.read_to_end(&mut buf);
        }
        buf
    });
    let t0 = Instant::now();
    let status = loop {
        if let Some(st) = child.try_wait()? {
            break st;
        }
        if t0.elapsed() > limit {
            let _ = child.kill();
            break child.wait()?;
        }
        std::thread::sleep(Duration::from_millis(50));
    };
    let stdout = reader.join().unwrap_or_default();
    Ok(std::process::Output {
        status,
        stdout,
        stderr: vec![],
    })
}

struct Pass {
    reports: Vec<Report>,
    dead_scenarios: Vec<(u64, String)>,
    dead_in_reference: Vec<(u64, String)>,
}

/// Execute scenarios first..first+n with worker processes of `exe`.
fn run_pass(exe: &Path, a: &CheckArgs, first: u64, n: u64) -> Pass {
    let total = first + n;
    let jobs = a.jobs.max(1).min(n.max(1) as usize);
    let (tx, rx) = mpsc::channel::<Msg>();
    let mut workers: Vec<Worker> = vec![];
    for k in 0..jobs {
        let child = spawn_worker(exe, a, k, first + k as u64, total, jobs as u64, tx.clone());
        workers.push(Worker {
            child,
            current: None,
            phase: String::new(),
            next_start: first + k as u64,
            done: false,
        });
    }
    let watchdog = Duration::from_secs(match a.tier {
        Tier::Quick => 200,
        Tier::Thorough => 900,
    });
    // a reference run is cut by its own wall guard after 8 s (quick) / 30 s (thorough); if it
    // does not even reach a scheduling point, the parent ends it here
    let ref_watchdog = Duration::from_secs(match a.tier {
        Tier::Quick => 40,
        Tier::Thorough => 120,
    });
    let mut reports: Vec<Report> = vec![];
    let mut dead_scenarios: Vec<(u64, String)> = vec![];
    let mut dead_in_reference: Vec<(u64, String)> = vec![];
    let mut kept: std::collections::HashMap<(String, String), u32> = std::collections::HashMap::new();
    let mut slowest: Vec<(f64, u64)> = vec![];
    #[allow(unused_assignments)]
    let mut violations_seen = 0u64;
    let mut active = jobs;
    while active > 0 {
        match rx.recv_timeout(Duration::from_secs(1)) {
            Ok(Msg::Begin(s, i)) => {
                workers[s].current = Some((i, Instant::now()));
                workers[s].phase = "begin".into();
            }
            Ok(Msg::Phase(s, name)) => {
                workers[s].phase = name;
                if let Some((i, _)) = workers[s].current {
                    workers[s].current = Some((i, Instant::now()));
                }
            }
            Ok(Msg::Report(s, mut r)) => {
                if let Some((i, t)) = workers[s].current {
                    slowest.push((t.elapsed().as_secs_f64(), i));
                    slowest.sort_by(|a, b| b.0.partial_cmp(&a.0).unwrap());
                    slowest.truncate(5);
                }
                workers[s].current = None;
                workers[s].next_start = r.idx + jobs as u64;
                if !r.violations.is_empty() {
                    // (the worker reports at most one violation per class and scenario, the parent keeps three per
                    // class: this count is the uncapped measure of how often an oracle fired)
                    r.stat("scenarios_with_a_violating_run", 1);
                }
                // bound memory: keep the replay data of the first few violations of each class only
                r.violations.retain(|v| {
                    let c = kept.entry((v.oracle.clone(), v.class.clone())).or_insert(0u32);
                    *c += 1;
                    *c <= 3
                });
                violations_seen += kept.values().map(|_| 0u64).sum::<u64>();
                reports.push(*r);
            }
            Ok(Msg::Eof(s)) => {
                if workers[s].done {
                    continue;
                }
                let status = workers[s].child.wait().ok();
                let clean = status.map(|st| st.success()).unwrap_or(false);
                if let Some((i, _)) = workers[s].current.take() {
                    // the worker died inside scenario i
                    let how = match status {
                        Some(st) => {
                            use std::os::unix::process::ExitStatusExt;
                            match st.signal() {
                                Some(sig) => format!("signal {sig}"),
                                None => format!("exit status {:?}", st.code()),
                            }
                        }
                        None => "unknown".into(),
                    };
                    if workers[s].phase == "reference" || workers[s].phase == "begin" {
                        // died or hung before any simulated fault or schedule was applied:
                        // input/configuration-only, outside the simulated slice
                        dead_in_reference.push((i, how));
                    } else {
                        dead_scenarios.push((i, how));
                    }
                    let ns = i + jobs as u64;
                    if ns < total {
                        let child = spawn_worker(exe, a, s, ns, total, jobs as u64, tx.clone());
                        workers[s].child = child;
                        workers[s].next_start = ns;
                        continue;
                    }
                } else if !clean && workers[s].next_start < total {
                    // worker exited between scenarios (e.g. after reporting a violation): restart
                    let ns = workers[s].next_start;
                    let child = spawn_worker(exe, a, s, ns, total, jobs as u64, tx.clone());
                    workers[s].child = child;
                    continue;
                }
                workers[s].done = true;
                active -= 1;
            }
            Err(mpsc::RecvTimeoutError::Timeout) => {
                for w in workers.iter_mut() {
                    if let Some((i, t)) = w.current {
                        let limit = if w.phase == "reference" || w.phase == "begin" { ref_watchdog } else { watchdog };
                        if t.elapsed() > limit {
                            eprintln!("watchdog: scenario {i} (phase {}) exceeded {limit:?}; killing its worker", w.phase);
                            let _ = w.child.kill();
                        }
                    }
                }
            }
            Err(mpsc::RecvTimeoutError::Disconnected) => break,
        }
    }
    if std::env::var("VERIF_TRACE").is_ok() {
        eprintln!("slowest scenarios (seconds in their last phase, index): {slowest:?}");
    }
    Pass {
        reports,
        dead_scenarios,
        dead_in_reference,
    }
}

pub fn run_check(fam: &dyn Family, a: &CheckArgs) -> i32 {
    let t0 = Instant::now();
    let exe = std::env::current_exe().expect("current_exe");
    let total = a.count_override.unwrap_or_else(|| fam.count(&a.prop, a.tier));
    let jobs = a.jobs.max(1).min(total.max(1) as usize);
    let watchdog = Duration::from_secs(match a.tier {
        Tier::Quick => 200,
        Tier::Thorough => 900,
    });
    let Pass {
        mut reports,
        mut dead_scenarios,
        mut dead_in_reference,
    } = run_pass(&exe, a, 0, total);
    let mut second_count = 0u64;
    if let Some((exe2, _)) = &a.second {
        // second build profile (release + debug-assertions + overflow-checks): the library's
        // debug_assert!s act as extra in-run invariants. Different scenarios (index offset).
        second_count = (total / a.second_fraction.max(1)).max(1);
        let p2 = run_pass(exe2, a, SECOND_OFFSET, second_count);
        reports.extend(p2.reports);
        dead_scenarios.extend(p2.dead_scenarios);
        dead_in_reference.extend(p2.dead_in_reference);
    }
    let total = total + second_count;
    reports.sort_by_key(|r| r.idx);

    // scenarios in which a worker died: re-execute alone, in a fresh process
    let mut harness_errors: Vec<String> = vec![];
    let mut notes: Vec<String> = vec![];
    let mut violations: Vec<Violation> = vec![];
    let mut deaths_not_judged: Vec<String> = vec![];
    for (n_dead, (i, how)) in dead_scenarios.iter().enumerate() {
        if !fam.death_is_violation(&a.prop) {
            // the property says nothing about termination or crashes: recorded, not judged, not re-run
            deaths_not_judged.push(format!("scenario {i}: worker died or hung ({how})"));
            continue;
        }
        if n_dead >= 2 {
            // each confirmation may take twice the watchdog: confirm the first two only
            harness_errors.push(format!("scenario {i}: worker died ({how}); not re-run (two dead scenarios were already re-run)"));
            continue;
        }
        let exe_for = if *i >= SECOND_OFFSET { a.second.as_ref().map(|x| x.0.clone()).unwrap_or(exe.clone()) } else { exe.clone() };
        let st = output_with_timeout(
            Command::new(&exe_for)
                .arg("one")
                .arg(&a.prop)
                .arg("--tier")
                .arg(a.tier.name())
                .arg("--seed")
                .arg(a.seed.to_string())
                .arg("--idx")
                .arg(i.to_string())
                .stdout(Stdio::piped())
                .stderr(Stdio::null()),
            watchdog * 2,
        );
        match st {
            Ok(o) if o.status.success() => {
                // did not reproduce: take its report
                let text = String::from_utf8_lossy(&o.stdout);
                let mut got = false;
                for line in text.lines() {
                    if let Some(rest) = line.strip_prefix("REPORT ") {
                        if let Ok(v) = serde_json::from_str::<Value>(rest) {
                            reports.push(Report::from_json(&v));
                            got = true;
                        }
                    }
                }
                if !got {
                    harness_errors.push(format!("scenario {i}: worker died ({how}) and the re-run produced no report"));
                } else {
                    // environmental (machine load, OOM killer): the scenario completes when run alone; its report is used
                    notes.push(format!("scenario {i}: worker died or was stopped by the watchdog ({how}); the scenario completed normally when re-run alone in a fresh process"));
                }
            }
            Ok(o) => {
                use std::os::unix::process::ExitStatusExt;
                let sig = o.status.signal();
                let class = match sig {
                    Some(9) => "hang".to_string(),
                    Some(11) | Some(7) => "crash:stack_exhaustion_or_segv".to_string(),
                    Some(s) => format!("crash:signal_{s}"),
                    None => format!("crash:exit_{:?}", o.status.code()),
                };
                violations.push(Violation {
                    property: a.prop.clone(),
                    oracle: "process_survives".into(),
                    class,
                    message: format!("worker process died ({how}) while executing scenario {i}; reproduced in a fresh process"),
                    replay: json!({
                        "family": fam.name(),
                        "property": a.prop,
                        "kind": "whole_scenario",
                        "verif_seed": a.seed,
                        "tier": a.tier.name(),
                        "scenario_index": i,
                    }),
                });
            }
            Err(e) => harness_errors.push(format!("cannot re-run scenario {i}: {e}")),
        }
    }
    reports.sort_by_key(|r| r.idx);
    reports.dedup_by_key(|r| r.idx);
    if (reports.len() as u64) + (dead_in_reference.len() as u64) + (deaths_not_judged.len() as u64) < total && dead_scenarios.is_empty() {
        harness_errors.push(format!("only {} of {} scenarios reported", reports.len(), total));
    }

    for r in &reports {
        violations.extend(r.violations.iter().cloned());
    }

    // triage
    let known: Vec<Value> = std::fs::read_to_string(a.verif_dir.join("known_findings.json"))
        .ok()
        .and_then(|s| serde_json::from_str::<Value>(&s).ok())
        .and_then(|v| v["findings"].as_array().cloned())
        .unwrap_or_default();
    let mut known_hits: BTreeMap<String, u64> = BTreeMap::new();
    let mut fresh: Vec<Violation> = vec![];
    for v in violations {
        if let Some(f) = known.iter().find(|f| finding_matches(f, &v)) {
            *known_hits.entry(f["id"].as_str().unwrap_or("?").to_string()).or_insert(0) += 1;
        } else {
            fresh.push(v);
        }
    }
    // every listed (status = known) finding of this property is announced, with the number of times this run hit it
    for f in known.iter().filter(|f| f["status"].as_str() == Some("known") && f["property"].as_str() == Some(a.prop.as_str())) {
        let id = f["id"].as_str().unwrap_or("?");
        let n = known_hits.get(id).copied().unwrap_or(0);
        println!(
            "KNOWN-FINDING: property={} {} (id {}, hit {} times in this run)",
            a.prop,
            f["what"].as_str().unwrap_or(""),
            id,
            n
        );
    }
    // de-duplicate by (oracle, class); minimise and confirm each
    let mut seen: HashSet<(String, String)> = HashSet::new();
    let mut confirmed: Vec<(Violation, PathBuf)> = vec![];
    let replay_dir = a.verif_dir.join("replays");
    let _ = std::fs::create_dir_all(&replay_dir);
    let n_fresh = fresh.len();
    for v in fresh {
        if !seen.insert((v.oracle.clone(), v.class.clone())) {
            continue;
        }
        if confirmed.len() >= 4 {
            break;
        }
        let idx = v.replay["scenario_index"].as_u64().unwrap_or(0);
        let sub = v.replay["sub_run"].as_u64().unwrap_or(0);
        let tag = v.class.replace(|c: char| !c.is_ascii_alphanumeric(), "_");
        let tag: String = tag.chars().take(40).collect();
        let raw = replay_dir.join(format!("{}-{}-{}-{}-{}.raw.json", a.prop, a.seed, idx, sub, tag));
        let min = replay_dir.join(format!("{}-{}-{}-{}-{}.json", a.prop, a.seed, idx, sub, tag));
        // the binary (build profile) that executed the scenario must also minimise and replay it
        let second_profile = idx >= SECOND_OFFSET && a.second.is_some();
        let exe_v: PathBuf = if second_profile { a.second.as_ref().unwrap().0.clone() } else { exe.clone() };
        let doc = json!({
            "violation": {"property": v.property, "oracle": v.oracle, "class": v.class, "message": v.message},
            "build_profile": if second_profile { "relchecks" } else { "release" },
            "replay": v.replay,
        });
        std::fs::write(&raw, serde_json::to_string_pretty(&doc).unwrap()).expect("write replay");
        if v.replay["kind"].as_str() == Some("whole_scenario") {
            std::fs::rename(&raw, &min).ok();
            confirmed.push((v, min));
            continue;
        }
        // minimise in a child process (isolation), then confirm by replay in a fresh process
        let st = Command::new(&exe_v)
            .arg("minimise")
            .arg(&raw)
            .arg(&min)
            .stdout(Stdio::null())
            .stderr(Stdio::null())
            .status();
        let target = if st.map(|s| s.success()).unwrap_or(false) && min.exists() {
            std::fs::remove_file(&raw).ok();
            min.clone()
        } else {
            std::fs::rename(&raw, &min).ok();
            min.clone()
        };
        let mut ok = 0;
        for _ in 0..2 {
            let st = Command::new(&exe_v)
                .arg("replay")
                .arg(&target)
                .stdout(Stdio::null())
                .stderr(Stdio::null())
                .status();
            if st.map(|s| s.code() == Some(1)).unwrap_or(false) {
                ok += 1;
            }
        }
        if ok == 2 {
            confirmed.push((v, target));
        } else {
            // a violation that a fresh process cannot reproduce from its replay file is not a property of the
            // code under that schedule: it is reported as a note, never as a violation
            notes.push(format!(
                "violation {} / {} (scenario {idx}, sub-run {sub}) did not reproduce on replay ({ok}/2); file {}",
                v.oracle,
                v.class,
                target.display()
            ));
        }
    }

    // evidence
    let mut fingerprints: HashSet<u64> = HashSet::new();
    let mut evaluations = 0u64;
    let mut trivial = 0u64;
    let mut fault_fired: BTreeMap<String, u64> = BTreeMap::new();
    let mut fault_runs_by_kind: BTreeMap<String, u64> = BTreeMap::new();
    let mut probes: BTreeMap<String, u64> = BTreeMap::new();
    let mut stats: BTreeMap<String, u64> = BTreeMap::new();
    let (mut sim_clock, mut steps, mut ff, mut fr) = (0u64, 0u64, 0u64, 0u64);
    let mut ref_failed: Vec<Value> = vec![];
    let mut ref_failed_by_reason: BTreeMap<String, u64> = BTreeMap::new();
    let mut n_ref_failed = 0u64;
    let mut samples: Vec<Value> = vec![];
    for r in &reports {
        evaluations += r.evaluations;
        trivial += r.trivial_runs;
        sim_clock += r.sim_clock;
        steps += r.steps;
        ff += r.fault_free_runs;
        fr += r.fault_runs;
        for f in &r.fingerprints {
            fingerprints.insert(*f);
        }
        for (k, v) in &r.fault_fired {
            *fault_fired.entry(k.clone()).or_insert(0) += v;
        }
        for (k, v) in &r.fault_runs_by_kind {
            *fault_runs_by_kind.entry(k.clone()).or_insert(0) += v;
        }
        for (k, v) in &r.probes {
            *probes.entry(k.clone()).or_insert(0) += v;
        }
        for (k, v) in &r.stats {
            *stats.entry(k.clone()).or_insert(0) += v;
        }
        if let Some(why) = &r.reference_failed {
            n_ref_failed += 1;
            // histogram by reason: the text up to the first line break, digits masked
            let key: String = why
                .lines()
                .next()
                .unwrap_or("")
                .chars()
                .take(100)
                .map(|c| if c.is_ascii_digit() { '#' } else { c })
                .collect();
            *ref_failed_by_reason.entry(key).or_insert(0u64) += 1;
            if ref_failed.len() < 5 {
                ref_failed.push(json!({"scenario_index": r.idx, "why": why, "scenario": r.sample}));
            }
        }
        if samples.len() < 6 && r.idx % (total / 6).max(1) == 0 {
            samples.push(json!({"scenario_index": r.idx, "verif_seed": a.seed, "scenario": r.sample}));
        }
    }
    for (i, how) in &dead_in_reference {
        n_ref_failed += 1;
        if ref_failed.len() < 8 {
            ref_failed.push(json!({"scenario_index": i, "why": format!("worker process died or hung inside the reference run ({how})")}));
        }
    }
    let wall = t0.elapsed().as_secs_f64();
    let exit = if !confirmed.is_empty() {
        1
    } else if !harness_errors.is_empty() {
        2
    } else {
        0
    };
    let components = fam.components();
    let mut assumptions = vec![
        "the simulator's models of rayon, std::sync and the caller over-approximate real behaviour at the granularity of synchronisation operations; interleavings between two plain instructions are not explored (complete for data-race-free code)".to_string(),
        "atomics are sequentially consistent except for the bounded-stale Relaxed load fault".to_string(),
        "seeded sampling: a clean batch is evidence, not proof; the input dimension is workload only".to_string(),
        "oracles trust bnum integer arithmetic and the harness' own Miller-Rabin / form arithmetic".to_string(),
    ];
    assumptions.extend(a.extra_assumptions.iter().cloned());
    let ev = json!({
        "property_id": a.prop,
        "tier": a.tier.name(),
        "seed": a.seed,
        "level": a.level,
        "coverage": {
            "evaluations": evaluations,
            "distinct_nontrivial": fingerprints.len(),
            "rule": fam.rule(&a.prop, a.tier),
            "samples": samples,
            "exhaustive": false,
            "base_scenarios": reports.len(),
            "trivial_runs": trivial,
            "fault_free_runs": ff,
            "fault_injected_runs": fr,
            "faults_fired_total": fault_fired,
            "runs_in_which_fault_kind_fired": fault_runs_by_kind,
            "rare_branch_probes": probes,
            "workload_stats": stats,
            "reference_failed": n_ref_failed,
            "reference_failed_examples": ref_failed,
            "reference_failed_by_reason": ref_failed_by_reason,
            "simulated_time_ticks": sim_clock,
            "scheduling_steps": steps,
            "runs_per_hour": if wall > 0.0 { (evaluations as f64 / wall * 3600.0) as u64 } else { 0 },
            "seeds_per_hour": if wall > 0.0 { (reports.len() as f64 / wall * 3600.0) as u64 } else { 0 },
            "worker_processes": jobs,
            "build_profile": a.profile,
            "second_build_profile": a.second.as_ref().map(|x| json!({"profile": x.1, "base_scenarios": second_count})),
            "components": components,
            "known_findings_hit": known_hits,
            "unlisted_violations_seen": n_fresh,
            "harness_errors": harness_errors,
            "harness_notes": notes,
            "worker_deaths_not_judged_for_this_property": deaths_not_judged,
            "violations_confirmed": confirmed.iter().map(|(v, p)| json!({"oracle": v.oracle, "class": v.class, "message": v.message, "replay": p.display().to_string()})).collect::<Vec<_>>(),
        },
        "assumptions": assumptions,
        "wall_s": wall,
        "violations": confirmed.len(),
    });
    let evdir = a.verif_dir.join("evidence");
    let _ = std::fs::create_dir_all(&evdir);
    let evfile = evdir.join(format!("{}.json", a.prop));
    std::fs::write(&evfile, serde_json::to_string_pretty(&ev).unwrap()).expect("write evidence");

    println!(
        "{} {}: {} scenarios, {} simulated runs ({} distinct non-trivial interleavings), {} reference_failed, {:.1}s",
        a.prop,
        a.tier.name(),
        reports.len(),
        evaluations,
        fingerprints.len(),
        n_ref_failed,
        wall
    );
    for e in &harness_errors {
        println!("HARNESS-ERROR: {e}");
    }
    for e in &notes {
        println!("HARNESS-NOTE: {e}");
    }
    for (v, p) in &confirmed {
        println!("  {} [{}] {}", v.oracle, v.class, v.message.chars().take(200).collect::<String>());
        println!("VIOLATION property={} replay={}", a.prop, p.display());
    }
    exit
}

pub fn worker(fam: &dyn Family, prop: &str, tier: Tier, seed: u64, start: u64, end: u64, stride: u64) -> i32 {
    use std::io::Write;
    let mut i = start;
    let stdout = std::io::stdout();
    while i < end {
        {
            let mut o = stdout.lock();
            writeln!(o, "BEGIN {i}").ok();
            o.flush().ok();
        }
        let mut rep = fam.run(prop, tier, seed, i);
        let bad = !rep.violations.is_empty();
        // keep the report small: one violation per (oracle, class), at most four
        {
            let mut seen = std::collections::HashSet::new();
            rep.violations.retain(|v| seen.insert((v.oracle.clone(), v.class.clone())));
            rep.violations.truncate(4);
        }
        {
            let mut o = stdout.lock();
            writeln!(o, "REPORT {}", serde_json::to_string(&rep.to_json()).unwrap()).ok();
            o.flush().ok();
        }
        if bad {
            // engine state may be tainted after a failed execution: restart from a clean process
            return 3;
        }
        i += stride;
    }
    0
}

pub fn replay_file(fams: &[&dyn Family], path: &Path) -> i32 {
    let doc: Value = serde_json::from_str(&std::fs::read_to_string(path).expect("read replay")).expect("parse replay");
    let want = &doc["violation"];
    let rp = &doc["replay"];
    let fam = fams
        .iter()
        .find(|f| Some(f.name()) == rp["family"].as_str())
        .expect("unknown family in replay file");
    if rp["kind"].as_str() == Some("whole_scenario") {
        let prop = rp["property"].as_str().unwrap();
        let tier = if rp["tier"].as_str() == Some("thorough") { Tier::Thorough } else { Tier::Quick };
        let rep = fam.run(prop, tier, rp["verif_seed"].as_u64().unwrap(), rp["scenario_index"].as_u64().unwrap());
        println!("scenario completed without the process dying; {} violations", rep.violations.len());
        return if rep.violations.is_empty() { 0 } else { 1 };
    }
    let got = fam.replay(rp);
    // replay files written before panic locations were made checkout-independent carry absolute paths
    let norm_class = |c: &str| -> String {
        match c.strip_prefix("panic@") {
            Some(loc) => match loc.rsplit_once(':') {
                Some((file, line)) => format!("panic@{}:{}", simcore::sim::norm_loc(file), line),
                None => c.to_string(),
            },
            None => c.to_string(),
        }
    };
    let want_class = want["class"].as_str().map(norm_class);
    let same = got.iter().find(|g| {
        Some(g.oracle.as_str()) == want["oracle"].as_str() && Some(norm_class(&g.class)) == want_class
    });
    match same {
        Some(g) => {
            println!("REPRODUCED property={} oracle={} class={}", g.property, g.oracle, g.class);
            println!("message: {}", g.message);
            1
        }
        None => {
            println!(
                "NOT REPRODUCED: wanted oracle={} class={}; observed {:?}",
                want["oracle"],
                want["class"],
                got.iter().map(|g| (g.oracle.clone(), g.class.clone())).collect::<Vec<_>>()
            );
            0
        }
    }
}

pub fn minimise_file(fams: &[&dyn Family], input: &Path, output: &Path) -> i32 {
    let doc: Value = serde_json::from_str(&std::fs::read_to_string(input).expect("read")).expect("parse");
    let rp = &doc["replay"];
    let fam = fams
        .iter()
        .find(|f| Some(f.name()) == rp["family"].as_str())
        .expect("unknown family");
    let out = minimise::minimise(*fam, &doc);
    std::fs::write(output, serde_json::to_string_pretty(&out).unwrap()).expect("write");
    0
}
