//! Types shared by the scenario families and the driver.

use serde_json::{json, Value};
use simcore::SimOutcome;
use std::collections::BTreeMap;

#[derive(Clone, Copy, Debug, PartialEq, Eq)]
pub enum Tier {
    Quick,
    Thorough,
}

impl Tier {
    pub fn name(&self) -> &'static str {
        match self {
            Tier::Quick => "quick",
            Tier::Thorough => "thorough",
        }
    }
}

#[derive(Clone, Debug)]
pub struct Violation {
    pub property: String,
    pub oracle: String,
    /// stable class used for de-duplication, known findings and minimisation
    pub class: String,
    pub message: String,
    /// everything needed to re-execute the failing sub-run
    pub replay: Value,
}

impl Violation {
    pub fn to_json(&self) -> Value {
        json!({
            "property": self.property,
            "oracle": self.oracle,
            "class": self.class,
            "message": self.message,
            "replay": self.replay,
        })
    }
    pub fn from_json(v: &Value) -> Violation {
        Violation {
            property: v["property"].as_str().unwrap_or("").to_string(),
            oracle: v["oracle"].as_str().unwrap_or("").to_string(),
            class: v["class"].as_str().unwrap_or("").to_string(),
            message: v["message"].as_str().unwrap_or("").to_string(),
            replay: v["replay"].clone(),
        }
    }
}

/// What one base scenario (reference run + all its simulated sub-runs) produced.
#[derive(Clone, Debug, Default)]
pub struct Report {
    pub idx: u64,
    pub evaluations: u64,
    pub fault_free_runs: u64,
    pub fault_runs: u64,
    /// interleaving fingerprints of the non-trivial runs
    pub fingerprints: Vec<u64>,
    pub trivial_runs: u64,
    pub fault_fired: BTreeMap<String, u64>,
    pub fault_runs_by_kind: BTreeMap<String, u64>,
    pub probes: BTreeMap<String, u64>,
    pub stats: BTreeMap<String, u64>,
    pub sim_clock: u64,
    pub steps: u64,
    pub reference_failed: Option<String>,
    pub sample: Value,
    pub violations: Vec<Violation>,
}

impl Report {
    pub fn new(idx: u64) -> Self {
        Report {
            idx,
            ..Default::default()
        }
    }

    pub fn stat(&mut self, k: &str, n: u64) {
        *self.stats.entry(k.to_string()).or_insert(0) += n;
    }

    /// Account for one executed simulation.
    pub fn absorb(&mut self, o: &SimOutcome, extra_fault: bool) {
        self.evaluations += 1;
        self.sim_clock += o.clock;
        self.steps += o.steps;
        let any_fault = extra_fault || o.fault_counts.values().any(|&v| v > 0);
        if any_fault {
            self.fault_runs += 1;
        } else {
            self.fault_free_runs += 1;
        }
        for (k, v) in &o.fault_counts {
            *self.fault_fired.entry(k.to_string()).or_insert(0) += v;
            if *v > 0 {
                *self.fault_runs_by_kind.entry(k.to_string()).or_insert(0) += 1;
            }
        }
        for (k, v) in &o.probes {
            *self.probes.entry(k.clone()).or_insert(0) += v;
        }
        if o.max_runnable >= 2 || any_fault {
            self.fingerprints.push(o.fingerprint);
        } else {
            self.trivial_runs += 1;
        }
    }

    pub fn to_json(&self) -> Value {
        json!({
            "idx": self.idx,
            "evaluations": self.evaluations,
            "fault_free_runs": self.fault_free_runs,
            "fault_runs": self.fault_runs,
            "fingerprints": self.fingerprints.iter().map(|x| format!("{x:016x}")).collect::<Vec<_>>(),
            "trivial_runs": self.trivial_runs,
            "fault_fired": self.fault_fired,
            "fault_runs_by_kind": self.fault_runs_by_kind,
            "probes": self.probes,
            "stats": self.stats,
            "sim_clock": self.sim_clock,
            "steps": self.steps,
            "reference_failed": self.reference_failed,
            "sample": self.sample,
            "violations": self.violations.iter().map(|v| v.to_json()).collect::<Vec<_>>(),
        })
    }

    pub fn from_json(v: &Value) -> Report {
        let map = |k: &str| -> BTreeMap<String, u64> {
            v[k].as_object()
                .map(|m| {
                    m.iter()
                        .map(|(k, v)| (k.clone(), v.as_u64().unwrap_or(0)))
                        .collect()
                })
                .unwrap_or_default()
        };
        Report {
            idx: v["idx"].as_u64().unwrap_or(0),
            evaluations: v["evaluations"].as_u64().unwrap_or(0),
            fault_free_runs: v["fault_free_runs"].as_u64().unwrap_or(0),
            fault_runs: v["fault_runs"].as_u64().unwrap_or(0),
            fingerprints: v["fingerprints"]
                .as_array()
                .map(|a| {
                    a.iter()
                        .map(|x| u64::from_str_radix(x.as_str().unwrap_or("0"), 16).unwrap_or(0))
                        .collect()
                })
                .unwrap_or_default(),
            trivial_runs: v["trivial_runs"].as_u64().unwrap_or(0),
            fault_fired: map("fault_fired"),
            fault_runs_by_kind: map("fault_runs_by_kind"),
            probes: map("probes"),
            stats: map("stats"),
            sim_clock: v["sim_clock"].as_u64().unwrap_or(0),
            steps: v["steps"].as_u64().unwrap_or(0),
            reference_failed: v["reference_failed"].as_str().map(|s| s.to_string()),
            sample: v["sample"].clone(),
            violations: v["violations"]
                .as_array()
                .map(|a| a.iter().map(Violation::from_json).collect())
                .unwrap_or_default(),
        }
    }
}

/// A scenario family: generates base scenarios from (seed, index) and executes them.
pub trait Family: Sync {
    fn name(&self) -> &'static str;
    /// Human-readable generation rule for the evidence file.
    fn rule(&self, prop: &str, tier: Tier) -> String;
    /// Number of base scenarios for this property and tier.
    fn count(&self, prop: &str, tier: Tier) -> u64;
    /// Execute base scenario `idx` (a pure function of (seed, prop, tier, idx)).
    fn run(&self, prop: &str, tier: Tier, seed: u64, idx: u64) -> Report;
    /// Re-execute one sub-run from a replay description; returns the violations observed.
    fn replay(&self, replay: &Value) -> Vec<Violation>;
    /// Candidate simplifications of a replay description for minimisation (scenario level).
    fn simplify(&self, _replay: &Value) -> Vec<Value> {
        vec![]
    }
    fn components(&self) -> Value;
    /// Does the property speak about termination / crashes at all? If not, a worker process that dies or hangs
    /// inside a simulated run is recorded in the evidence but is not a violation of that property.
    fn death_is_violation(&self, prop: &str) -> bool {
        matches!(prop, "C04" | "C05" | "C11" | "C19")
    }
    /// The base scenario of index `idx`, without executing it.
    fn describe(&self, prop: &str, tier: Tier, seed: u64, idx: u64) -> Value;
}

/// Announce the phase of the scenario being executed (the parent uses it to classify a worker
/// that dies or hangs: inside the reference run = input-only, outside the simulated slice).
pub fn phase(idx: u64, name: &str) {
    use std::io::Write;
    let stdout = std::io::stdout();
    let mut o = stdout.lock();
    writeln!(o, "PHASE {idx} {name}").ok();
    o.flush().ok();
}
