//! Independent verification of sieve relations: x^2 = (-1)^e * cofactor * prod p^k (mod n),
//! with bnum arithmetic written here (not `Relation::verify`).

use bnum::cast::CastFrom;
use bnum::types::U512;
use yamaquasi::relations::Relation;
use yamaquasi::Uint;

fn mulmod_u(a: &Uint, b: &Uint, n: &Uint) -> Uint {
    (*a * *b) % *n
}

/// Returns Err(description) if the relation is not a true congruence modulo n.
/// `want_cofactor`: if Some(c) the relation's cofactor field must equal c.
pub fn verify_relation(n: &Uint, r: &Relation, want_cofactor: Option<u64>) -> Result<(), String> {
    if let Some(c) = want_cofactor {
        if r.cofactor != c {
            return Err(format!("cofactor is {} but {} expected", r.cofactor, c));
        }
    }
    if n.bits() <= 250 && r.x.bits() <= 500 {
        return verify_small(n, r);
    }
    let mut neg = false;
    let mut prod = Uint::from(r.cofactor) % *n;
    for &(p, k) in &r.factors {
        if p == -1 {
            if k % 2 == 1 {
                neg = !neg;
            }
        } else if p <= 0 {
            if p == 0 {
                prod = Uint::ZERO;
            } else {
                return Err(format!("negative factor {p}"));
            }
        } else {
            for _ in 0..k {
                prod = mulmod_u(&prod, &Uint::from(p as u64), n);
            }
        }
    }
    if neg {
        prod = (*n - prod) % *n;
    }
    let x = r.x % *n;
    if mulmod_u(&x, &x, n) == prod {
        Ok(())
    } else {
        Err(format!(
            "x^2 != +-cofactor*prod(p^k) mod n (x={}, cofactor={}, factors={:?})",
            r.x, r.cofactor, r.factors
        ))
    }
}

fn verify_small(n: &Uint, r: &Relation) -> Result<(), String> {
    // n < 2^250: work in U512 with products < 2^500.
    let n5 = U512::cast_from(*n);
    let mut neg = false;
    let mut acc = U512::from(r.cofactor) % n5;
    let mut chunk: u128 = 1;
    let mut zero = false;
    for &(p, k) in &r.factors {
        if p == -1 {
            if k % 2 == 1 {
                neg = !neg;
            }
            continue;
        }
        if p == 0 {
            zero = true;
            continue;
        }
        if p < 0 {
            return Err(format!("negative factor {p}"));
        }
        if k > 100_000 {
            return Err(format!("absurd exponent {k} for {p}"));
        }
        let p = p as u64 as u128;
        for _ in 0..k {
            if chunk >= 1 << 64 {
                acc = (acc * U512::from(chunk)) % n5;
                chunk = 1;
            }
            chunk *= p; // p < 2^64, chunk < 2^64 => no overflow
        }
    }
    acc = (acc * U512::from(chunk)) % n5;
    if zero {
        acc = U512::ZERO;
    }
    if neg {
        acc = (n5 - acc) % n5;
    }
    let x = U512::cast_from(r.x % *n);
    if (x * x) % n5 == acc {
        Ok(())
    } else {
        Err(format!(
            "x^2 != +-cofactor*prod(p^k) mod n (x={}, cofactor={}, factors={:?})",
            r.x, r.cofactor, r.factors
        ))
    }
}
