//! Independent arithmetic of positive definite binary quadratic forms (composition, reduction,
//! prime forms) and an exact class number by counting reduced forms. Nothing from the library.

use crate::oracles::primes::{is_prime, mulmod, powmod};
use num_integer::Integer;
use num_traits::Signed;

pub trait FInt: Integer + Signed + Copy + std::fmt::Debug + From<i64> {}
impl FInt for i128 {}
impl FInt for bnum::types::I512 {}

/// (a, b, c) with b^2 - 4ac = D < 0, a > 0.
#[derive(Clone, Copy, Debug, PartialEq, Eq)]
pub struct Form<T: FInt> {
    pub a: T,
    pub b: T,
    pub c: T,
}

fn two<T: FInt>() -> T {
    T::from(2)
}

/// x mod m in [0, m) for m > 0, written with `%` only (truncating remainder).
fn fmod<T: FInt>(x: T, m: T) -> T {
    let r = x % m;
    if r < T::zero() {
        r + m
    } else {
        r
    }
}

impl<T: FInt> Form<T> {
    /// c from (a, b, D)
    pub fn from_ab(a: T, b: T, d: T) -> Option<Form<T>> {
        let num = b * b - d;
        let den = T::from(4) * a;
        if !(num % den).is_zero() {
            return None;
        }
        Some(Form { a, b, c: num / den })
    }

    pub fn identity(d: T) -> Form<T> {
        let b = if d.is_even() { T::zero() } else { T::one() };
        Form::from_ab(T::one(), b, d).unwrap()
    }

    pub fn disc(&self) -> T {
        self.b * self.b - T::from(4) * self.a * self.c
    }

    pub fn inverse(&self) -> Form<T> {
        Form { a: self.a, b: -self.b, c: self.c }.reduced()
    }

    pub fn reduced(mut self) -> Form<T> {
        loop {
            // normalise: -a < b <= a
            if !(self.b > -self.a && self.b <= self.a) {
                let two_a = two::<T>() * self.a;
                // r = b mod 2a in (-a, a]
                let mut r = fmod(self.b, two_a);
                if r > self.a {
                    r = r - two_a;
                }
                let k = (r - self.b) / two_a; // b' = b + 2ak
                self.c = self.c + k * (self.b + self.a * k);
                self.b = r;
            }
            if self.a > self.c {
                std::mem::swap(&mut self.a, &mut self.c);
                self.b = -self.b;
                continue;
            }
            if self.a == self.c && self.b < T::zero() {
                self.b = -self.b;
            }
            return self;
        }
    }

    /// Gauss composition (Cohen, Algorithm 5.4.7), result reduced.
    pub fn compose(&self, o: &Form<T>) -> Form<T> {
        let (f1, f2) = if self.a > o.a { (o, self) } else { (self, o) };
        let (a1, b1) = (f1.a, f1.b);
        let (a2, b2, c2) = (f2.a, f2.b, f2.c);
        let s = (b1 + b2) / two::<T>();
        let n = b2 - s;
        let (y1, d) = if (a2 % a1).is_zero() {
            (T::zero(), a1)
        } else {
            let e = a2.extended_gcd(&a1);
            (e.x, e.gcd)
        };
        let (x2, y2, d1) = if (s % d).is_zero() {
            (T::zero(), -T::one(), d)
        } else {
            let e = s.extended_gcd(&d);
            (e.x, -e.y, e.gcd)
        };
        let v1 = a1 / d1;
        let v2 = a2 / d1;
        let m = |x: T| fmod(x, v1);
        let r = m(m(m(y1) * m(y2)) * m(n) - m(x2) * m(c2));
        let b3 = b2 + two::<T>() * v2 * r;
        let a3 = v1 * v2;
        let c3 = (c2 * d1 + r * (b2 + v2 * r)) / v1;
        Form { a: a3, b: b3, c: c3 }.reduced()
    }

    pub fn pow(&self, mut e: u128, d: T) -> Form<T> {
        let mut acc = Form::identity(d);
        let mut base = *self;
        while e > 0 {
            if e & 1 == 1 {
                acc = acc.compose(&base);
            }
            base = base.compose(&base);
            e >>= 1;
        }
        acc
    }

    pub fn is_identity(&self, d: T) -> bool {
        *self == Form::identity(d)
    }
}

pub fn tonelli(n: u64, p: u64) -> Option<u64> {
    // square root of n modulo odd prime p
    let n = n % p;
    if n == 0 {
        return Some(0);
    }
    let (pp, nn) = (p as u128, n as u128);
    if powmod(nn, (pp - 1) / 2, pp) != 1 {
        return None;
    }
    if p % 4 == 3 {
        return Some(powmod(nn, (pp + 1) / 4, pp) as u64);
    }
    let s = (p - 1).trailing_zeros();
    let q = (p - 1) >> s;
    let mut z = 2u128;
    while powmod(z, (pp - 1) / 2, pp) != pp - 1 {
        z += 1;
    }
    let mut m = s;
    let mut c = powmod(z, q as u128, pp);
    let mut t = powmod(nn, q as u128, pp);
    let mut r = powmod(nn, (q as u128 + 1) / 2, pp);
    while t != 1 {
        let mut i = 0;
        let mut tt = t;
        while tt != 1 {
            tt = mulmod(tt, tt, pp);
            i += 1;
        }
        let b = powmod(c, 1u128 << (m - i - 1), pp);
        m = i;
        c = mulmod(b, b, pp);
        t = mulmod(t, c, pp);
        r = mulmod(r, b, pp);
    }
    Some(r as u64)
}

/// The prime form denoted "+p" in relations.sieve: (p, b, .) with 0 <= b < p (b = p when p | D and D is
/// odd), b = D (mod 2), b^2 = D (mod 4p); for p = 2 and odd D: b = 1 (mod 4), i.e. b = 1.
/// `d_mod_p` = D mod p in [0,p), `d` the discriminant.
pub fn prime_form<T: FInt>(d: T, d_mod_p: u64, d_mod_16: u64, p: u64) -> Option<Form<T>> {
    let d_even = d.is_even();
    let b: u64 = if p == 2 {
        if !d_even {
            // D = 1 mod 8 required
            if d_mod_16 % 8 != 1 {
                return None;
            }
            1
        } else {
            // D = 4m: m = 3 mod 4 -> b = 2 ; m = 2 mod 4 -> b = 0
            match d_mod_16 {
                12 => 2,
                8 => 0,
                _ => return None,
            }
        }
    } else {
        let r = tonelli(d_mod_p, p)?;
        let want_parity = if d_even { 0 } else { 1 };
        if r == 0 {
            // ramified prime: b = 0 (even D) or p (odd D)
            if d_even {
                0
            } else {
                p
            }
        } else if r % 2 == want_parity {
            r
        } else {
            p - r
        }
    };
    Form::from_ab(T::from(p as i64), T::from(b as i64), d).map(|f| f.reduced())
}

// ---------------------------------------------------------------------------------------------
// Exact class number by counting reduced forms, |D| <= 2^50.

/// Number of reduced primitive forms of fundamental discriminant -dabs (dabs = |D|).
pub fn class_number_by_counting(dabs: u64) -> u64 {
    assert!(dabs >= 3 && dabs < 1 << 51);
    let parity = dabs % 2; // b = D mod 2 and D = -dabs have the same parity
    let bmax = ((dabs / 3) as f64).sqrt() as u64 + 2;
    let bmax = {
        let mut b = bmax;
        while 3 * b * b > dabs {
            b -= 1;
        }
        b
    };
    // values of b: parity, parity+2, ... <= bmax ; m(b) = (b^2 + dabs)/4
    let nb = if bmax >= parity { (bmax - parity) / 2 + 1 } else { 0 } as usize;
    let mmax = (bmax * bmax + dabs) / 4;
    let plimit = (mmax as f64).sqrt() as u64 + 2;
    // primes up to plimit with their roots of b^2 = -dabs (mod p)
    let mut sieve = vec![true; plimit as usize + 1];
    let mut primes: Vec<u64> = vec![];
    for i in 2..=plimit as usize {
        if sieve[i] {
            primes.push(i as u64);
            let mut j = i * i;
            while j <= plimit as usize {
                sieve[j] = false;
                j += i;
            }
        }
    }
    drop(sieve);
    struct PR {
        p: u64,
        roots: [u64; 2],
        nroots: usize,
    }
    let mut prs: Vec<PR> = vec![];
    for &p in &primes {
        if p == 2 {
            continue; // handled by direct division
        }
        let dm = (p - dabs % p) % p; // D mod p
        match tonelli(dm, p) {
            None => {}
            Some(0) => prs.push(PR { p, roots: [0, 0], nroots: 1 }),
            Some(r) => prs.push(PR { p, roots: [r, p - r], nroots: 2 }),
        }
    }
    const BLOCK: usize = 1 << 15;
    let mut total: u64 = 0;
    let mut rem: Vec<u64> = vec![0; BLOCK];
    let mut facs: Vec<Vec<(u64, u32)>> = vec![Vec::new(); BLOCK];
    let mut start = 0usize;
    while start < nb {
        let len = BLOCK.min(nb - start);
        for k in 0..len {
            let b = parity + 2 * (start + k) as u64;
            rem[k] = (b * b + dabs) / 4;
            facs[k].clear();
            // factor 2
            let tz = rem[k].trailing_zeros();
            if tz > 0 {
                facs[k].push((2, tz));
                rem[k] >>= tz;
            }
        }
        let b0 = parity + 2 * start as u64;
        for pr in &prs {
            let p = pr.p;
            for ri in 0..pr.nroots {
                let r = pr.roots[ri];
                // smallest k >= 0 with b0 + 2k = r (mod p)  =>  k = (r - b0) / 2 mod p
                let diff = (r + p - b0 % p) % p;
                let inv2 = (p + 1) / 2;
                let mut k = (mulmod(diff as u128, inv2 as u128, p as u128)) as usize;
                while k < len {
                    let mut e = 0;
                    while rem[k] % p == 0 {
                        rem[k] /= p;
                        e += 1;
                    }
                    if e > 0 {
                        facs[k].push((p, e));
                    }
                    k += p as usize;
                }
            }
        }
        for k in 0..len {
            let b = parity + 2 * (start + k) as u64;
            let m = (b * b + dabs) / 4;
            if rem[k] > 1 {
                facs[k].push((rem[k], 1)); // a single prime above sqrt(m)
            }
            // enumerate divisors a of m with b <= a and a*a <= m
            let mut divs: Vec<u64> = vec![1];
            for &(p, e) in &facs[k] {
                let cur = divs.len();
                let mut pk = 1u64;
                for _ in 0..e {
                    pk *= p;
                    for i in 0..cur {
                        let v = divs[i] as u128 * pk as u128;
                        if v * v <= m as u128 {
                            divs.push(v as u64);
                        }
                    }
                }
            }
            for &a in &divs {
                if a < b || (a as u128 * a as u128) > m as u128 {
                    continue;
                }
                let c = m / a;
                // fundamental discriminant: every form is primitive
                if b == 0 || b == a || a == c {
                    total += 1;
                } else {
                    total += 2;
                }
            }
        }
        start += len;
    }
    total
}

/// Factorisation of a (smallish) integer by trial division and Pollard rho.
pub fn factor_u128(mut n: u128) -> Vec<(u128, u32)> {
    let mut out: Vec<(u128, u32)> = vec![];
    let push = |out: &mut Vec<(u128, u32)>, p: u128| {
        if let Some(e) = out.iter_mut().find(|e| e.0 == p) {
            e.1 += 1;
        } else {
            out.push((p, 1));
        }
    };
    let mut p = 2u128;
    while p < 1 << 16 && p * p <= n {
        while n % p == 0 {
            push(&mut out, p);
            n /= p;
        }
        p += if p == 2 { 1 } else { 2 };
    }
    let mut stack = vec![];
    if n > 1 {
        stack.push(n);
    }
    while let Some(m) = stack.pop() {
        if is_prime(m) {
            push(&mut out, m);
            continue;
        }
        // Pollard rho (Floyd)
        let mut c = 1u128;
        let f = loop {
            let g = |x: u128| (mulmod(x, x, m) + c) % m;
            let (mut x, mut y, mut d) = (2u128, 2u128, 1u128);
            while d == 1 {
                x = g(x);
                y = g(g(y));
                d = num_integer::gcd(if x > y { x - y } else { y - x }, m);
            }
            if d != m {
                break d;
            }
            c += 1;
        };
        stack.push(f);
        stack.push(m / f);
    }
    out.sort();
    out
}
