pub mod forms;
pub mod primes;
pub mod relcheck;
