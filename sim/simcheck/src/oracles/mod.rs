pub mod primes;
pub mod relcheck;
