//! Independent primality / prime generation for the harness (no library code involved).

use bnum::types::U256;
use simcore::prng::Rng;

pub const SMALL_PRIMES: [u64; 46] = [
    2, 3, 5, 7, 11, 13, 17, 19, 23, 29, 31, 37, 41, 43, 47, 53, 59, 61, 67, 71, 73, 79, 83, 89, 97,
    101, 103, 107, 109, 113, 127, 131, 137, 139, 149, 151, 157, 163, 167, 173, 179, 181, 191, 193,
    197, 199,
];

#[inline]
pub fn mulmod(a: u128, b: u128, m: u128) -> u128 {
    if m <= u64::MAX as u128 {
        return (a % m) * (b % m) % m;
    }
    let p = U256::from(a) * U256::from(b);
    let r = p % U256::from(m);
    let d = r.digits();
    (d[0] as u128) | ((d[1] as u128) << 64)
}

pub fn powmod(mut b: u128, mut e: u128, m: u128) -> u128 {
    let mut r: u128 = 1 % m;
    b %= m;
    while e > 0 {
        if e & 1 == 1 {
            r = mulmod(r, b, m);
        }
        b = mulmod(b, b, m);
        e >>= 1;
    }
    r
}

/// Miller-Rabin with the first 13 primes as bases (deterministic below 3.3e24, and the
/// generator only feeds it random candidates above that).
pub fn is_prime(n: u128) -> bool {
    if n < 2 {
        return false;
    }
    for &p in SMALL_PRIMES.iter() {
        if n == p as u128 {
            return true;
        }
        if n % p as u128 == 0 {
            return false;
        }
    }
    let s = (n - 1).trailing_zeros();
    let d = (n - 1) >> s;
    'base: for &a in &SMALL_PRIMES[..13] {
        let mut x = powmod(a as u128, d, n);
        if x == 1 || x == n - 1 {
            continue;
        }
        for _ in 1..s {
            x = mulmod(x, x, n);
            if x == n - 1 {
                continue 'base;
            }
        }
        return false;
    }
    true
}

/// Random prime with exactly `bits` bits (2 <= bits <= 127).
pub fn gen_prime(rng: &mut Rng, bits: u32) -> u128 {
    assert!((2..=127).contains(&bits));
    loop {
        let hi = 1u128 << (bits - 1);
        let r = ((rng.next_u64() as u128) << 64 | rng.next_u64() as u128) & (hi - 1);
        let c = hi | r | if bits > 2 { 1 } else { 0 };
        if is_prime(c) {
            return c;
        }
        if bits == 2 {
            return if rng.chance(0.5) { 2 } else { 3 };
        }
    }
}

pub fn next_prime(mut n: u128) -> u128 {
    n += 1;
    while !is_prime(n) {
        n += 1;
    }
    n
}

pub fn gen_prime_mod(rng: &mut Rng, bits: u32, modulus: u128, residue: u128) -> u128 {
    loop {
        let p = gen_prime(rng, bits);
        if p % modulus == residue {
            return p;
        }
    }
}
