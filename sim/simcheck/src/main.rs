//! simcheck: deterministic simulation with fault injection for yamaquasi (see /verif/DESIGN.md).

mod common;
mod driver;
mod minimise;
mod oracles;
mod scen;
mod simjson;
mod util;

use common::{Family, Tier};
use std::path::PathBuf;

fn family_for(prop: &str) -> &'static dyn Family {
    match prop {
        "C01" | "C02" | "C04" | "C05" => &scen::factor::FactorFamily,
        "C11" => &scen::relstore::RelstoreFamily,
        "C19" => &scen::lattice::LatticeFamily,
        "C14" => &scen::lanczos::LanczosFamily,
        "C18" => &scen::clsgrp::ClsgrpFamily,
        _ => {
            eprintln!("property {prop} has no simulated check (see MANIFEST.json not_applicable)");
            std::process::exit(2);
        }
    }
}

fn all_families() -> Vec<&'static dyn Family> {
    vec![&scen::factor::FactorFamily, &scen::relstore::RelstoreFamily, &scen::lattice::LatticeFamily, &scen::lanczos::LanczosFamily, &scen::clsgrp::ClsgrpFamily, &scen::clsabort::ClsAbortFamily, &scen::multicaller::MultiCallerFamily, &scen::clsthreads::ClsThreadsFamily]
}

fn arg_val(args: &[String], name: &str) -> Option<String> {
    args.iter().position(|a| a == name).and_then(|i| args.get(i + 1).cloned())
}

fn tier_of(args: &[String]) -> Tier {
    match arg_val(args, "--tier").as_deref() {
        Some("thorough") => Tier::Thorough,
        _ => Tier::Quick,
    }
}

fn main() {
    // worker stacks of the simulated main thread are large; the OS main thread only drives
    let args: Vec<String> = std::env::args().collect();
    if args.len() < 2 {
        eprintln!("usage: simcheck check|worker|one|replay|minimise ...");
        std::process::exit(2);
    }
    let code = match args[1].as_str() {
        "check" => {
            let prop = args[2].clone();
            let tier = tier_of(&args);
            let seed = arg_val(&args, "--seed")
                .or_else(|| std::env::var("VERIF_SEED").ok())
                .and_then(|s| s.parse::<u64>().ok())
                .unwrap_or(20260926);
            let jobs = arg_val(&args, "--jobs")
                .and_then(|s| s.parse().ok())
                .unwrap_or_else(|| std::thread::available_parallelism().map(|n| n.get()).unwrap_or(4));
            let verif_dir = PathBuf::from(arg_val(&args, "--verif-dir").unwrap_or_else(|| "/verif".into()));
            let fam = family_for(&prop);
            let level = match prop.as_str() {
                "C05" => "fault_enumeration",
                _ => "exploration",
            };
            let second = arg_val(&args, "--second-exe").map(|e| {
                (PathBuf::from(e), arg_val(&args, "--second-profile").unwrap_or_else(|| "second".into()))
            });
            let a = driver::CheckArgs {
                second_fraction: arg_val(&args, "--second-fraction").and_then(|s| s.parse().ok()).unwrap_or(4),
                second,
                prop,
                tier,
                seed,
                jobs,
                verif_dir,
                profile: arg_val(&args, "--profile").unwrap_or_else(|| "release".into()),
                count_override: arg_val(&args, "--count").and_then(|s| s.parse().ok()),
                level: level.into(),
                extra_assumptions: vec![],
            };
            driver::run_check(fam, &a)
        }
        "worker" => {
            let prop = args[2].clone();
            let tier = tier_of(&args);
            let seed = arg_val(&args, "--seed").unwrap().parse().unwrap();
            let start = arg_val(&args, "--start").unwrap().parse().unwrap();
            let end = arg_val(&args, "--end").unwrap().parse().unwrap();
            let stride = arg_val(&args, "--stride").unwrap().parse().unwrap();
            driver::worker(family_for(&prop), &prop, tier, seed, start, end, stride)
        }
        "one" => {
            let prop = args[2].clone();
            let tier = tier_of(&args);
            let seed = arg_val(&args, "--seed").unwrap().parse().unwrap();
            let idx: u64 = arg_val(&args, "--idx").unwrap().parse().unwrap();
            let t0 = std::time::Instant::now();
            let rep = family_for(&prop).run(&prop, tier, seed, idx);
            println!("REPORT {}", serde_json::to_string(&rep.to_json()).unwrap());
            eprintln!(
                "scenario {idx}: {} runs, {} violations, ref_failed={:?}, {:.3}s, sample={}",
                rep.evaluations,
                rep.violations.len(),
                rep.reference_failed,
                t0.elapsed().as_secs_f64(),
                rep.sample
            );
            0
        }
        "describe" => {
            let prop = args[2].clone();
            let tier = tier_of(&args);
            let seed = arg_val(&args, "--seed").unwrap().parse().unwrap();
            let idx: u64 = arg_val(&args, "--idx").unwrap().parse().unwrap();
            println!("{}", family_for(&prop).describe(&prop, tier, seed, idx));
            0
        }
        "selftest-oracles" => {
            use oracles::forms::*;
            let mut bad = 0;
            for (d, h) in [(23u64, 3u64), (47, 5), (71, 7), (163, 1), (10148, 60), (424708, 64), (1411012, 124), (2402548, 176), (672772578839, 959482), (4133106580052, 615040)] {
                let t0 = std::time::Instant::now();
                let got = class_number_by_counting(d);
                println!("h(-{d}) = {got} (expected {h}) {:.3}s", t0.elapsed().as_secs_f64());
                if got != h {
                    bad += 1;
                }
                // every prime form to the power h is the identity
                let dd = -(d as i128);
                for p in [2u64, 3, 5, 7, 11, 13, 17, 19, 23, 29, 31] {
                    let dm = (p - d % p) % p;
                    let d16 = (16 - d % 16) % 16;
                    if let Some(f) = prime_form::<i128>(dd, dm, d16, p) {
                        if f.disc() != dd || !f.pow(h as u128, dd).is_identity(dd) {
                            println!("  prime form {p}: {f:?} ^h is not the identity");
                            bad += 1;
                        }
                        let g = f.compose(&f.inverse());
                        if !g.is_identity(dd) {
                            println!("  f * f^-1 != 1 for p={p}");
                            bad += 1;
                        }
                    }
                }
            }
            println!("factor_u128(615040) = {:?}", factor_u128(615040));
            if bad > 0 { 1 } else { 0 }
        }
        "replay" => driver::replay_file(&all_families(), &PathBuf::from(&args[2])),
        "minimise" => driver::minimise_file(&all_families(), &PathBuf::from(&args[2]), &PathBuf::from(&args[3])),
        other => {
            eprintln!("unknown command {other}");
            2
        }
    };
    std::process::exit(code);
}
