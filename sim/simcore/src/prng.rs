//! The one PRNG of the simulator. SplitMix64 for seeding/hashing, xoshiro256** for streams.
//! No dependency on `rand`: every simulator decision comes from here.

#[inline]
pub fn splitmix(x: &mut u64) -> u64 {
    *x = x.wrapping_add(0x9E37_79B9_7F4A_7C15);
    let mut z = *x;
    z = (z ^ (z >> 30)).wrapping_mul(0xBF58_476D_1CE4_E5B9);
    z = (z ^ (z >> 27)).wrapping_mul(0x94D0_49BB_1331_11EB);
    z ^ (z >> 31)
}

/// Hash a sequence of words into one word (order sensitive).
pub fn mix(words: &[u64]) -> u64 {
    let mut h: u64 = 0x243F_6A88_85A3_08D3;
    for &w in words {
        let mut s = h ^ w;
        h = splitmix(&mut s) ^ h.rotate_left(23);
    }
    let mut s = h;
    splitmix(&mut s)
}

pub fn hash_str(s: &str) -> u64 {
    let mut h: u64 = 0xcbf2_9ce4_8422_2325;
    for b in s.bytes() {
        h ^= b as u64;
        h = h.wrapping_mul(0x0000_0100_0000_01B3);
    }
    h
}

/// Derive an independent stream seed from (seed, property, run, stream name).
pub fn derive(seed: u64, prop: &str, run: u64, stream: &str) -> u64 {
    mix(&[seed, hash_str(prop), run, hash_str(stream)])
}

#[derive(Clone, Debug)]
pub struct Rng {
    s: [u64; 4],
}

impl Rng {
    pub fn new(seed: u64) -> Self {
        let mut x = seed;
        let s = [
            splitmix(&mut x),
            splitmix(&mut x),
            splitmix(&mut x),
            splitmix(&mut x),
        ];
        Rng { s }
    }

    #[inline]
    pub fn next_u64(&mut self) -> u64 {
        let result = self.s[1].wrapping_mul(5).rotate_left(7).wrapping_mul(9);
        let t = self.s[1] << 17;
        self.s[2] ^= self.s[0];
        self.s[3] ^= self.s[1];
        self.s[1] ^= self.s[2];
        self.s[0] ^= self.s[3];
        self.s[2] ^= t;
        self.s[3] = self.s[3].rotate_left(45);
        result
    }

    /// Uniform in 0..n (n > 0).
    #[inline]
    pub fn below(&mut self, n: u64) -> u64 {
        debug_assert!(n > 0);
        // multiply-shift; bias negligible for our n.
        ((self.next_u64() as u128 * n as u128) >> 64) as u64
    }

    /// Uniform in lo..=hi.
    pub fn range(&mut self, lo: u64, hi: u64) -> u64 {
        lo + self.below(hi - lo + 1)
    }

    pub fn f64(&mut self) -> f64 {
        (self.next_u64() >> 11) as f64 / (1u64 << 53) as f64
    }

    pub fn chance(&mut self, p: f64) -> bool {
        self.f64() < p
    }

    pub fn pick<'a, T>(&mut self, xs: &'a [T]) -> &'a T {
        &xs[self.below(xs.len() as u64) as usize]
    }

    /// Weighted choice: returns index.
    pub fn weighted(&mut self, w: &[u32]) -> usize {
        let tot: u64 = w.iter().map(|&x| x as u64).sum();
        let mut r = self.below(tot);
        for (i, &x) in w.iter().enumerate() {
            if r < x as u64 {
                return i;
            }
            r -= x as u64;
        }
        w.len() - 1
    }

    pub fn shuffle<T>(&mut self, xs: &mut [T]) {
        for i in (1..xs.len()).rev() {
            let j = self.below(i as u64 + 1) as usize;
            xs.swap(i, j);
        }
    }
}
