//! Simulated threads: scoped spawn with an explicit stack size, and join.

use crate::sim::{current_task, in_sim, sched_point, with_sim, OpKind};
use shuttle_engine::runtime::execution::ExecutionState;
use shuttle_engine::runtime::task::TaskId;
use std::panic::Location;
use std::sync::{Arc, Mutex};

pub struct Handle {
    task: TaskId,
    result: Arc<Mutex<Option<std::thread::Result<()>>>>,
}

impl Handle {
    pub fn id(&self) -> usize {
        self.task.into()
    }
}

/// Spawn a simulated thread running `f`.
///
/// # Safety
/// The caller must `join` the handle before anything borrowed by `f` goes out of scope.
#[track_caller]
pub unsafe fn spawn_scoped<'a, F>(f: F, stack_size: usize, name: &str) -> Handle
where
    F: FnOnce() + Send + 'a,
{
    assert!(in_sim(), "spawn outside simulation");
    let result = Arc::new(Mutex::new(None));
    let r2 = result.clone();
    let parent = current_task();
    let body = move || {
        f();
        // bookkeeping when the thread ends
        with_sim(|s| {
            s.live_now = s.live_now.saturating_sub(1);
        });
    };
    let boxed: Box<dyn FnOnce() + 'a> =
        Box::new(move || shuttle_engine::thread_support::thread_fn(body, false, r2));
    let boxed: Box<dyn FnOnce() + 'static> = std::mem::transmute(boxed);
    // spawn_thread performs the scheduling point itself
    with_sim(|s| {
        if let Some(c) = s.cur {
            s.tasks[c].pending = OpKind::Spawn;
        }
    });
    let task = ExecutionState::spawn_thread(
        boxed,
        stack_size,
        Some(name.to_string()),
        None,
        Location::caller(),
    );
    let id: usize = task.into();
    with_sim(|s| {
        s.ensure_task(id);
        s.ensure_task(parent);
        let step = s.step;
        s.tasks[id].sync_floor = step;
        s.live_now += 1;
    });
    Handle { task, result }
}

pub fn join(h: Handle) {
    let finished = ExecutionState::with(|state| state.get(h.task).finished());
    if finished {
        sched_point(OpKind::Join);
    } else {
        with_sim(|s| {
            if let Some(c) = s.cur {
                s.tasks[c].pending = OpKind::Join;
            }
        });
    }
    let should_block = ExecutionState::with(|state| {
        let me = state.current().id();
        let target = state.get_mut(h.task);
        if target.set_waiter(me) {
            state.current_mut().block(false);
            true
        } else {
            false
        }
    });
    if should_block {
        shuttle_engine::runtime::thread::switch();
    }
    let me = current_task();
    with_sim(|s| {
        s.ensure_task(me);
        let step = s.step;
        s.tasks[me].sync_floor = step;
    });
    let r = h.result.lock().unwrap().take();
    match r {
        Some(Ok(())) => {}
        Some(Err(e)) => std::panic::resume_unwind(e),
        None => panic!("joined thread did not finish"),
    }
}

/// Run `clients` closures as concurrent simulated threads and wait for all of them.
pub fn run_clients<'a>(clients: Vec<Box<dyn FnOnce() + Send + 'a>>, stack: usize) {
    let mut hs = vec![];
    for (i, c) in clients.into_iter().enumerate() {
        hs.push(unsafe { spawn_scoped(c, stack, &format!("client-{i}")) });
    }
    for h in hs {
        join(h);
    }
}
