//! Models of `std::sync::RwLock` and `std::sync::atomic::*` under simulator control.
//! Named by the cfg-guarded import swaps in /repo (`simsync::sync::...`).
//!
//! Outside a simulation (no scheduler active) the primitives act directly and assume a single
//! thread; they are not real synchronisation primitives.

use crate::sim::{current_task, in_sim, sched_point, with_sim, OpKind};
use shuttle_engine::runtime::execution::ExecutionState;
use shuttle_engine::runtime::task::TaskId;
use std::cell::{RefCell, UnsafeCell};
use std::ops::{Deref, DerefMut};
pub use std::sync::{LockResult, PoisonError};

pub(crate) fn reset_registry() {}

struct LockState {
    readers: Vec<usize>,
    writer: Option<usize>,
    waiting_writers: Vec<usize>,
    waiting_readers: Vec<usize>,
    poisoned: bool,
}

/// Model of `std::sync::RwLock`: writer preferring (like the futex implementation), a
/// re-entrant read is allowed while no writer waits (it would succeed on std too).
pub struct RwLock<T: ?Sized> {
    state: RefCell<LockState>,
    data: UnsafeCell<T>,
}

unsafe impl<T: ?Sized + Send> Send for RwLock<T> {}
unsafe impl<T: ?Sized + Send + Sync> Sync for RwLock<T> {}

pub struct RwLockReadGuard<'a, T: ?Sized> {
    lock: &'a RwLock<T>,
    me: usize,
}
pub struct RwLockWriteGuard<'a, T: ?Sized> {
    lock: &'a RwLock<T>,
    me: usize,
}

fn me() -> usize {
    if in_sim() {
        current_task()
    } else {
        0
    }
}

fn block_current() {
    ExecutionState::with(|s| s.current_mut().block(false));
    shuttle_engine::runtime::thread::switch();
}

fn unblock(ids: &[usize]) {
    if ids.is_empty() {
        return;
    }
    ExecutionState::with(|s| {
        for &i in ids {
            let t = s.get_mut(TaskId::from(i));
            if !t.finished() {
                t.unblock();
            }
        }
    });
}

impl<T> RwLock<T> {
    pub fn new(t: T) -> Self {
        RwLock {
            state: RefCell::new(LockState {
                readers: vec![],
                writer: None,
                waiting_writers: vec![],
                waiting_readers: vec![],
                poisoned: false,
            }),
            data: UnsafeCell::new(t),
        }
    }

    pub fn into_inner(self) -> LockResult<T> {
        let poisoned = self.state.borrow().poisoned;
        let v = self.data.into_inner();
        if poisoned {
            Err(PoisonError::new(v))
        } else {
            Ok(v)
        }
    }
}

impl<T: ?Sized> RwLock<T> {
    pub fn read(&self) -> LockResult<RwLockReadGuard<'_, T>> {
        let me = me();
        sched_point(OpKind::LockRead);
        if in_sim() {
            loop {
                let ok = {
                    let mut st = self.state.borrow_mut();
                    if st.writer.is_none() && st.waiting_writers.is_empty() {
                        st.readers.push(me);
                        true
                    } else {
                        if !st.waiting_readers.contains(&me) {
                            st.waiting_readers.push(me);
                        }
                        false
                    }
                };
                if ok {
                    break;
                }
                with_sim(|s| s.probe("rwlock_read_blocked"));
                block_current();
            }
            with_sim(|s| {
                let step = s.step;
                s.ensure_task(me);
                s.tasks[me].sync_floor = step;
            });
        } else {
            self.state.borrow_mut().readers.push(me);
        }
        let g = RwLockReadGuard { lock: self, me };
        if self.state.borrow().poisoned {
            Err(PoisonError::new(g))
        } else {
            Ok(g)
        }
    }

    pub fn write(&self) -> LockResult<RwLockWriteGuard<'_, T>> {
        let me = me();
        sched_point(OpKind::LockWrite);
        if in_sim() {
            loop {
                let ok = {
                    let mut st = self.state.borrow_mut();
                    if st.writer.is_none() && st.readers.is_empty() {
                        st.writer = Some(me);
                        st.waiting_writers.retain(|&w| w != me);
                        true
                    } else {
                        if !st.waiting_writers.contains(&me) {
                            st.waiting_writers.push(me);
                        }
                        false
                    }
                };
                if ok {
                    break;
                }
                with_sim(|s| s.probe("rwlock_write_blocked"));
                block_current();
            }
            with_sim(|s| {
                let step = s.step;
                s.ensure_task(me);
                s.tasks[me].sync_floor = step;
            });
        } else {
            let mut st = self.state.borrow_mut();
            assert!(st.writer.is_none() && st.readers.is_empty(), "lock misuse outside simulation");
            st.writer = Some(me);
        }
        let g = RwLockWriteGuard { lock: self, me };
        if self.state.borrow().poisoned {
            Err(PoisonError::new(g))
        } else {
            Ok(g)
        }
    }

    pub fn get_mut(&mut self) -> LockResult<&mut T> {
        Ok(self.data.get_mut())
    }

    pub fn is_poisoned(&self) -> bool {
        self.state.borrow().poisoned
    }

    fn release(&self, me: usize, write: bool) {
        let panicking = std::thread::panicking();
        if !panicking {
            sched_point(OpKind::Unlock);
        }
        let wake: Vec<usize> = {
            let mut st = self.state.borrow_mut();
            if write {
                debug_assert_eq!(st.writer, Some(me));
                st.writer = None;
                if panicking {
                    st.poisoned = true;
                }
            } else if let Some(pos) = st.readers.iter().position(|&r| r == me) {
                st.readers.swap_remove(pos);
            }
            if st.writer.is_none() && st.readers.is_empty() {
                // lock free: wake everybody; writers keep their place in `waiting_writers`
                // until they acquire, so woken readers still yield to them.
                let mut w = st.waiting_writers.clone();
                w.extend(st.waiting_readers.drain(..));
                w
            } else {
                vec![]
            }
        };
        if in_sim() && !panicking {
            let stopping = with_sim(|s| s.stopping);
            if !stopping {
                unblock(&wake);
            }
        }
    }
}

impl<T: ?Sized> Drop for RwLockReadGuard<'_, T> {
    fn drop(&mut self) {
        self.lock.release(self.me, false);
    }
}
impl<T: ?Sized> Drop for RwLockWriteGuard<'_, T> {
    fn drop(&mut self) {
        self.lock.release(self.me, true);
    }
}
impl<T: ?Sized> Deref for RwLockReadGuard<'_, T> {
    type Target = T;
    fn deref(&self) -> &T {
        unsafe { &*self.lock.data.get() }
    }
}
impl<T: ?Sized> Deref for RwLockWriteGuard<'_, T> {
    type Target = T;
    fn deref(&self) -> &T {
        unsafe { &*self.lock.data.get() }
    }
}
impl<T: ?Sized> DerefMut for RwLockWriteGuard<'_, T> {
    fn deref_mut(&mut self) -> &mut T {
        unsafe { &mut *self.lock.data.get() }
    }
}

impl<T: Default> Default for RwLock<T> {
    fn default() -> Self {
        RwLock::new(T::default())
    }
}

pub mod atomic {
    use super::*;
    pub use std::sync::atomic::Ordering;

    /// Per-atomic bookkeeping for the bounded-stale Relaxed load fault.
    struct Hist<V: Copy> {
        /// (step of the store, value); last = latest. Bounded length.
        stores: Vec<(u64, V)>,
        /// global sequence number of stores (index of stores[0] in the modification order)
        base: u64,
        /// per task: (lowest modification-order index it may still read, consecutive stale loads)
        readers: Vec<(usize, u64, u32)>,
    }

    impl<V: Copy> Hist<V> {
        fn new(v: V) -> Self {
            Hist {
                stores: vec![(0, v)],
                base: 0,
                readers: vec![],
            }
        }
        fn latest(&self) -> V {
            self.stores.last().unwrap().1
        }
        fn latest_idx(&self) -> u64 {
            self.base + self.stores.len() as u64 - 1
        }
        fn push(&mut self, step: u64, v: V) {
            self.stores.push((step, v));
            if self.stores.len() > 8 {
                self.stores.remove(0);
                self.base += 1;
            }
        }
        fn reader(&mut self, t: usize) -> &mut (usize, u64, u32) {
            if let Some(p) = self.readers.iter().position(|r| r.0 == t) {
                &mut self.readers[p]
            } else {
                self.readers.push((t, 0, 0));
                self.readers.last_mut().unwrap()
            }
        }
    }

    macro_rules! sim_atomic {
        ($name:ident, $ty:ty) => {
            pub struct $name {
                h: RefCell<Hist<$ty>>,
            }
            unsafe impl Send for $name {}
            unsafe impl Sync for $name {}

            impl $name {
                pub fn new(v: $ty) -> Self {
                    $name {
                        h: RefCell::new(Hist::new(v)),
                    }
                }

                pub fn load(&self, order: Ordering) -> $ty {
                    sched_point(OpKind::AtomicLoad);
                    if !in_sim() {
                        return self.h.borrow().latest();
                    }
                    let me = current_task();
                    let mut h = self.h.borrow_mut();
                    let latest_idx = h.latest_idx();
                    if order != Ordering::Relaxed || h.stores.len() == 1 {
                        let r = h.reader(me);
                        r.1 = latest_idx;
                        r.2 = 0;
                        return h.latest();
                    }
                    // Relaxed load: may legally observe an older store, within bounds.
                    let age: u32 = with_sim(|s| {
                        s.relaxed_loads += 1;
                        let seq = s.relaxed_loads;
                        if s.cfg.replay.is_some() {
                            return s.replay_stale.get(&seq).copied().unwrap_or(0);
                        }
                        let Some(cfg) = s.cfg.stale.clone() else {
                            return 0;
                        };
                        if !s.fault_rng.chance(cfg.prob) {
                            return 0;
                        }
                        // candidate ages 1..=3
                        1 + s.fault_rng.below(3) as u32
                    });
                    if age == 0 {
                        let r = h.reader(me);
                        r.1 = latest_idx;
                        r.2 = 0;
                        return h.latest();
                    }
                    // resolve bounds
                    let (floor_step, maxc) = with_sim(|s| {
                        s.ensure_task(me);
                        (
                            s.tasks[me].sync_floor,
                            s.cfg.stale.as_ref().map(|c| c.max_consecutive).unwrap_or(4),
                        )
                    });
                    let base = h.base;
                    // lowest index allowed by synchronisation: the latest store at or before floor_step
                    let mut sync_low = base;
                    for (k, &(st, _)) in h.stores.iter().enumerate() {
                        if st <= floor_step {
                            sync_low = base + k as u64;
                        }
                    }
                    let (coh_low, consecutive) = {
                        let r = h.reader(me);
                        (r.1, r.2)
                    };
                    let low = sync_low.max(coh_low).max(base);
                    let want = latest_idx.saturating_sub(age as u64).max(low);
                    if want >= latest_idx || consecutive >= maxc {
                        let r = h.reader(me);
                        r.1 = latest_idx;
                        r.2 = 0;
                        return h.latest();
                    }
                    let v = h.stores[(want - base) as usize].1;
                    {
                        let r = h.reader(me);
                        r.1 = want;
                        r.2 += 1;
                    }
                    let real_age = (latest_idx - want) as u32;
                    with_sim(|s| {
                        let seq = s.relaxed_loads;
                        s.stale_events.push((seq, real_age));
                        s.count("stale_relaxed_load");
                    });
                    v
                }

                pub fn store(&self, v: $ty, _order: Ordering) {
                    sched_point(OpKind::AtomicStore);
                    let step = if in_sim() { with_sim(|s| s.step) } else { 0 };
                    let mut h = self.h.borrow_mut();
                    h.push(step, v);
                    if in_sim() {
                        let me = current_task();
                        let li = h.latest_idx();
                        let r = h.reader(me);
                        r.1 = li;
                        r.2 = 0;
                    }
                }

                fn rmw(&self, f: impl FnOnce($ty) -> $ty) -> $ty {
                    sched_point(OpKind::AtomicRmw);
                    let step = if in_sim() { with_sim(|s| s.step) } else { 0 };
                    let mut h = self.h.borrow_mut();
                    let old = h.latest();
                    h.push(step, f(old));
                    if in_sim() {
                        let me = current_task();
                        let li = h.latest_idx();
                        let r = h.reader(me);
                        r.1 = li;
                        r.2 = 0;
                    }
                    old
                }

                pub fn swap(&self, v: $ty, _order: Ordering) -> $ty {
                    self.rmw(|_| v)
                }

                pub fn compare_exchange(
                    &self,
                    current: $ty,
                    new: $ty,
                    _s: Ordering,
                    _f: Ordering,
                ) -> Result<$ty, $ty> {
                    let mut ok = false;
                    let old = self.rmw(|o| {
                        if o == current {
                            ok = true;
                            new
                        } else {
                            o
                        }
                    });
                    if ok {
                        Ok(old)
                    } else {
                        Err(old)
                    }
                }

                pub fn into_inner(self) -> $ty {
                    self.h.into_inner().latest()
                }

                pub fn get_mut_value(&mut self) -> $ty {
                    self.h.get_mut().latest()
                }
            }

            impl Default for $name {
                fn default() -> Self {
                    Self::new(Default::default())
                }
            }

            impl std::fmt::Debug for $name {
                fn fmt(&self, f: &mut std::fmt::Formatter<'_>) -> std::fmt::Result {
                    write!(f, "{:?}", self.h.borrow().latest())
                }
            }
        };
    }

    sim_atomic!(AtomicBool, bool);
    sim_atomic!(AtomicUsize, usize);
    sim_atomic!(AtomicU64, u64);
    sim_atomic!(AtomicU32, u32);
    sim_atomic!(AtomicI64, i64);

    macro_rules! sim_atomic_int {
        ($name:ident, $ty:ty) => {
            impl $name {
                pub fn fetch_add(&self, v: $ty, _order: Ordering) -> $ty {
                    self.rmw(|o| o.wrapping_add(v))
                }
                pub fn fetch_sub(&self, v: $ty, _order: Ordering) -> $ty {
                    self.rmw(|o| o.wrapping_sub(v))
                }
                pub fn fetch_max(&self, v: $ty, _order: Ordering) -> $ty {
                    self.rmw(|o| o.max(v))
                }
                pub fn fetch_min(&self, v: $ty, _order: Ordering) -> $ty {
                    self.rmw(|o| o.min(v))
                }
            }
        };
    }
    sim_atomic_int!(AtomicUsize, usize);
    sim_atomic_int!(AtomicU64, u64);
    sim_atomic_int!(AtomicU32, u32);
    sim_atomic_int!(AtomicI64, i64);

    impl AtomicBool {
        pub fn fetch_or(&self, v: bool, _order: Ordering) -> bool {
            self.rmw(|o| o | v)
        }
        pub fn fetch_and(&self, v: bool, _order: Ordering) -> bool {
            self.rmw(|o| o & v)
        }
    }
}
