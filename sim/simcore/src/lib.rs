//! Deterministic simulator core for the yamaquasi verification harness.
//! See /verif/DESIGN.md §3.

pub mod fs;
pub mod prng;
pub mod probe;
pub mod rngseam;
pub mod sim;
pub mod sync;
pub mod task;

pub use sim::{
    in_sim, run_sim, sched_point, AbortPlan, ClaimPolicy, FsFaultCfg, OpKind, ReplayPlan, RngBias,
    RunEnd, SimConfig, SimOutcome, StaleCfg, Strategy,
};

/// Pool configuration read by the rayon facade.
pub fn num_threads_default() -> usize {
    if in_sim() {
        sim::with_sim_pub(|c| c.num_threads_default)
    } else {
        1
    }
}
pub fn claim_policy() -> (ClaimPolicy, u64) {
    if in_sim() {
        sim::with_sim_pub(|c| (c.claim_policy, c.seed_claim))
    } else {
        (ClaimPolicy::InOrder, 0)
    }
}
pub fn worker_stack() -> usize {
    if in_sim() {
        sim::with_sim_pub(|c| c.worker_stack)
    } else {
        2 << 20
    }
}
