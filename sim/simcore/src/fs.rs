//! In-memory model of the part of `std::fs` that relationcls.rs uses (hook H2), with
//! short writes, EINTR and hard errors injected by the simulator.

use crate::sim::{in_sim, sched_point, with_sim, OpKind};
use std::cell::RefCell;
use std::collections::BTreeMap;
use std::io;
use std::path::{Path, PathBuf};

#[derive(Default)]
struct Store {
    files: BTreeMap<PathBuf, Vec<u8>>,
    /// per file: the byte counts accepted by each successful `write` call
    write_log: BTreeMap<PathBuf, Vec<usize>>,
    hard_error_seen: bool,
}

thread_local! {
    static STORE: RefCell<Store> = RefCell::new(Store::default());
}

pub(crate) fn reset() {
    STORE.with(|s| *s.borrow_mut() = Store::default());
}

/// Contents of every file written during the last run.
pub fn snapshot() -> BTreeMap<PathBuf, Vec<u8>> {
    STORE.with(|s| s.borrow().files.clone())
}

pub fn hard_error_seen() -> bool {
    STORE.with(|s| s.borrow().hard_error_seen)
}

#[derive(Debug)]
pub struct File {
    path: PathBuf,
}

impl File {
    pub fn create<P: AsRef<Path>>(path: P) -> io::Result<File> {
        let path = path.as_ref().to_path_buf();
        if in_sim() {
            sched_point(OpKind::FsWrite);
            let fail = with_sim(|s| {
                if s.cfg.fs.create_fails {
                    s.count("fs_create_fails");
                    true
                } else {
                    false
                }
            });
            if fail {
                STORE.with(|s| s.borrow_mut().hard_error_seen = true);
                return Err(io::Error::new(io::ErrorKind::PermissionDenied, "simfs: create fails"));
            }
        }
        STORE.with(|s| {
            let mut s = s.borrow_mut();
            s.files.insert(path.clone(), vec![]);
            s.write_log.insert(path.clone(), vec![]);
        });
        Ok(File { path })
    }
}

impl io::Write for File {
    fn write(&mut self, buf: &[u8]) -> io::Result<usize> {
        let mut n = buf.len();
        if in_sim() {
            sched_point(OpKind::FsWrite);
            // 0 = short(n) 1 = eintr 2 = hard
            let fault: Option<(u8, u64)> = with_sim(|s| {
                s.fs_writes += 1;
                let seq = s.fs_writes;
                if s.cfg.replay.is_some() {
                    return s.replay_fs.get(&seq).copied();
                }
                if s.cfg.fs.hard_error_at_write == Some(seq) {
                    return Some((2, 0));
                }
                if s.cfg.fs.eintr_prob > 0.0 && s.fs_rng.chance(s.cfg.fs.eintr_prob) {
                    return Some((1, 0));
                }
                if buf.len() > 1
                    && s.cfg.fs.short_write_prob > 0.0
                    && s.fs_rng.chance(s.cfg.fs.short_write_prob)
                {
                    let k = 1 + s.fs_rng.below(buf.len() as u64 - 1);
                    return Some((0, k));
                }
                None
            });
            if let Some((kind, k)) = fault {
                with_sim(|s| {
                    let seq = s.fs_writes;
                    s.fs_events.push((seq, kind, k));
                    s.count(match kind {
                        0 => "fs_short_write",
                        1 => "fs_eintr",
                        _ => "fs_hard_error",
                    });
                });
                match kind {
                    0 => n = (k as usize).min(buf.len()).max(1),
                    1 => return Err(io::Error::new(io::ErrorKind::Interrupted, "simfs: EINTR")),
                    _ => {
                        STORE.with(|s| s.borrow_mut().hard_error_seen = true);
                        return Err(io::Error::new(io::ErrorKind::Other, "simfs: EIO/ENOSPC"));
                    }
                }
            }
        }
        STORE.with(|s| {
            let mut s = s.borrow_mut();
            s.files
                .entry(self.path.clone())
                .or_default()
                .extend_from_slice(&buf[..n]);
            s.write_log.entry(self.path.clone()).or_default().push(n);
        });
        Ok(n)
    }

    fn flush(&mut self) -> io::Result<()> {
        Ok(())
    }
}

pub fn create_dir_all<P: AsRef<Path>>(_path: P) -> io::Result<()> {
    Ok(())
}

pub fn write<P: AsRef<Path>, C: AsRef<[u8]>>(path: P, contents: C) -> io::Result<()> {
    use io::Write;
    let mut f = File::create(path)?;
    f.write_all(contents.as_ref())
}
