//! Simulation state, the seeded scheduler, and the run entry point.
//!
//! One simulated run executes on ONE OS thread; simulated threads are coroutines of the
//! shuttle engine. All simulator state therefore lives in an OS-thread-local `RefCell`.

use crate::prng::{mix, Rng};
use shuttle_engine::runtime::task::{Task, TaskId};
use shuttle_engine::scheduler::{Schedule, Scheduler};
use std::cell::{Cell, RefCell};
use std::collections::{BTreeMap, HashMap};
use std::sync::{Arc, Mutex};

#[derive(Clone, Copy, Debug, PartialEq, Eq, Hash)]
#[repr(u8)]
pub enum OpKind {
    Start = 0,
    AtomicLoad,
    AtomicStore,
    AtomicRmw,
    LockRead,
    LockWrite,
    Unlock,
    Spawn,
    Join,
    Claim,
    Poll,
    Probe,
    FsWrite,
    RngDraw,
    Client,
}

#[derive(Clone, Debug, PartialEq)]
pub enum Strategy {
    /// never preempt: continue the current thread, else lowest id (reference runs)
    Default,
    Random,
    Sticky(f64),
    RoundRobin(u64),
    Pct(u32),
}

impl Strategy {
    pub fn name(&self) -> String {
        match self {
            Strategy::Default => "default".into(),
            Strategy::Random => "random".into(),
            Strategy::Sticky(p) => format!("sticky({p})"),
            Strategy::RoundRobin(q) => format!("roundrobin({q})"),
            Strategy::Pct(d) => format!("pct({d})"),
        }
    }
}

#[derive(Clone, Copy, Debug, PartialEq, Eq)]
pub enum AbortPlan {
    Never,
    /// predicate returns true from its k-th evaluation on (k >= 1), counted over all threads
    AtPoll(u64),
    /// predicate returns clock >= T (latched)
    AtTime(u64),
    /// predicate returns true from the p-th evaluation made after the r-th parallel region started (latched):
    /// places the flip between the first polls of the workers of a region
    AtRegion(u64, u64),
}

#[derive(Clone, Copy, Debug, PartialEq, Eq)]
pub enum ClaimPolicy {
    InOrder,
    Halving,
    RandomPerm,
}

#[derive(Clone, Debug)]
pub struct StaleCfg {
    pub prob: f64,
    pub max_consecutive: u32,
}

#[derive(Clone, Debug, Default)]
pub struct FsFaultCfg {
    pub short_write_prob: f64,
    pub eintr_prob: f64,
    /// hard error on the k-th write call (1-based), if any
    pub hard_error_at_write: Option<u64>,
    pub create_fails: bool,
}

#[derive(Clone, Debug, PartialEq)]
pub enum RngBias {
    Fair,
    /// first `prefix` words are biased in the given way, then fair
    LowWeight { prefix: u64 },
    Repeated { prefix: u64 },
    ZeroLanes { prefix: u64 },
    /// all zero, for ever (termination cut-off test)
    AllZero,
}

#[derive(Clone, Debug)]
pub struct ReplayPlan {
    /// (step, task) : at that step choose that task (if runnable)
    pub preemptions: Vec<(u64, usize)>,
    /// resolved stale loads: (global relaxed-load sequence number, age >= 1)
    pub stale: Vec<(u64, u32)>,
    /// resolved fs faults: (write sequence number, kind, n)  kind: 0=short(n bytes) 1=eintr 2=hard
    pub fs: Vec<(u64, u8, u64)>,
    /// per simulated thread (by id): clock ticks per step ("slow worker")
    pub slow: Vec<u64>,
}

#[derive(Clone, Debug)]
pub struct SimConfig {
    pub seed_schedule: u64,
    pub seed_fault: u64,
    pub seed_rng: u64,
    pub seed_fs: u64,
    pub seed_claim: u64,
    pub strategy: Strategy,
    /// probability of a stall fault before a frequent operation (lock, claim, probe)
    pub stall_prob: f64,
    /// probability of a stall fault before a publishing operation (atomic store / RMW)
    pub stall_prob_store: f64,
    pub stall_max_len: u64,
    pub slow_max: u64,
    pub stale: Option<StaleCfg>,
    pub abort: AbortPlan,
    pub step_cap: u64,
    pub expected_steps: u64,
    pub replay: Option<ReplayPlan>,
    pub num_threads_default: usize,
    pub claim_policy: ClaimPolicy,
    pub rng_bias: RngBias,
    pub rng_draw_budget: u64,
    pub fs: FsFaultCfg,
    pub main_stack: usize,
    pub worker_stack: usize,
    /// Wall-clock guard (milliseconds) for reference runs only: a run that exceeds it ends as
    /// `RunEnd::WallLimit` and its scenario is not judged. Never set for judged runs.
    pub wall_limit_ms: Option<u64>,
}

impl SimConfig {
    pub fn reference(seed: u64) -> Self {
        SimConfig {
            seed_schedule: seed,
            seed_fault: seed ^ 1,
            seed_rng: seed ^ 2,
            seed_fs: seed ^ 3,
            seed_claim: seed ^ 4,
            strategy: Strategy::Default,
            stall_prob: 0.0,
            stall_prob_store: 0.0,
            stall_max_len: 0,
            slow_max: 1,
            stale: None,
            abort: AbortPlan::Never,
            step_cap: u64::MAX,
            expected_steps: 1000,
            replay: None,
            num_threads_default: 4,
            claim_policy: ClaimPolicy::InOrder,
            rng_bias: RngBias::Fair,
            rng_draw_budget: u64::MAX,
            fs: FsFaultCfg::default(),
            main_stack: 8 << 20,
            worker_stack: 2 << 20,
            wall_limit_ms: None,
        }
    }
}

#[derive(Clone, Debug, PartialEq)]
pub enum RunEnd {
    Completed,
    Panic { message: String, location: String },
    Deadlock(String),
    Livelock,
    WallLimit,
}

impl RunEnd {
    pub fn class(&self) -> String {
        match self {
            RunEnd::Completed => "completed".into(),
            RunEnd::Panic { location, .. } => format!("panic@{location}"),
            RunEnd::Deadlock(_) => "deadlock".into(),
            RunEnd::Livelock => "livelock".into(),
            RunEnd::WallLimit => "wall_limit".into(),
        }
    }
}

#[derive(Clone, Debug)]
pub struct UnitEvent {
    pub step: u64,
    pub task: usize,
    pub kind: &'static str,
    pub after_flip: bool,
    pub task_had_true: bool,
}

#[derive(Clone, Debug)]
pub struct SimOutcome {
    pub end: RunEnd,
    pub steps: u64,
    pub clock: u64,
    pub polls: u64,
    pub fingerprint: u64,
    pub preemptions: Vec<(u64, usize)>,
    pub context_switches: u64,
    pub max_runnable: usize,
    pub tasks_seen: usize,
    pub fault_counts: BTreeMap<&'static str, u64>,
    pub probes: BTreeMap<String, u64>,
    pub flip_step: Option<u64>,
    pub flip_poll: Option<u64>,
    pub live_at_flip: usize,
    pub units_total: u64,
    pub units_after_flip: u64,
    /// number of evaluations of the abort predicate that answered true
    pub true_polls: u64,
    pub a3_violations: Vec<String>,
    pub notes: Vec<String>,
    pub stale_events: Vec<(u64, u32)>,
    pub fs_events: Vec<(u64, u8, u64)>,
    pub rng_draws: u64,
    pub rng_cut: bool,
    pub unit_events: Vec<UnitEvent>,
    pub slow_factors: Vec<u64>,
}

pub(crate) struct TaskInfo {
    pub pending: OpKind,
    pub slow: u64,
    pub got_true: bool,
    pub stalled_until: u64,
    pub prio: u64,
    pub sync_floor: u64,
    pub finished_seen: bool,
}

pub(crate) struct Sim {
    pub cfg: SimConfig,
    pub sched_rng: Rng,
    pub fault_rng: Rng,
    pub rng_rng: Rng,
    pub fs_rng: Rng,
    pub step: u64,
    pub clock: u64,
    pub polls: u64,
    pub regions: u64,
    pub polls_in_region: u64,
    pub tasks: Vec<TaskInfo>,
    pub cur: Option<usize>,
    pub fingerprint: u64,
    pub preemptions: Vec<(u64, usize)>,
    pub replay_map: HashMap<u64, usize>,
    pub replay_stale: HashMap<u64, u32>,
    pub replay_fs: HashMap<u64, (u8, u64)>,
    pub context_switches: u64,
    pub max_runnable: usize,
    pub fault_counts: BTreeMap<&'static str, u64>,
    pub probes: BTreeMap<String, u64>,
    pub flipped: bool,
    pub flip_step: Option<u64>,
    pub flip_poll: Option<u64>,
    pub live_at_flip: usize,
    pub live_now: usize,
    pub units_total: u64,
    pub units_after_flip: u64,
    /// number of evaluations of the abort predicate that answered true
    pub true_polls: u64,
    pub a3_violations: Vec<String>,
    pub notes: Vec<String>,
    pub livelock: bool,
    pub rr_count: u64,
    pub pct_change_points: Vec<u64>,
    pub pct_low: u64,
    pub relaxed_loads: u64,
    pub stale_events: Vec<(u64, u32)>,
    pub fs_writes: u64,
    pub fs_events: Vec<(u64, u8, u64)>,
    pub rng_draws: u64,
    pub rng_cut: bool,
    pub rng_last: u64,
    pub unit_events: Vec<UnitEvent>,
    pub stopping: bool,
    pub started_at: std::time::Instant,
    pub wall_hit: bool,
}

thread_local! {
    static EPOCH: Cell<u64> = const { Cell::new(0) };
    pub(crate) static SIM: RefCell<Option<Sim>> = const { RefCell::new(None) };
    static ACTIVE: Cell<bool> = const { Cell::new(false) };
    static FIRST_PANIC: RefCell<Option<(String, String)>> = const { RefCell::new(None) };
    static HOOK_INSTALLED: Cell<bool> = const { Cell::new(false) };
}

#[inline]
pub fn in_sim() -> bool {
    ACTIVE.with(|a| a.get())
}

pub(crate) fn with_sim<R>(f: impl FnOnce(&mut Sim) -> R) -> R {
    SIM.with(|s| {
        let mut b = s.borrow_mut();
        f(b.as_mut().expect("simulation not active"))
    })
}

pub fn current_task() -> usize {
    shuttle_engine::current::me().into()
}

impl Sim {
    fn new(cfg: SimConfig) -> Sim {
        let mut replay_map = HashMap::new();
        let mut replay_stale = HashMap::new();
        let mut replay_fs = HashMap::new();
        if let Some(r) = &cfg.replay {
            for &(s, t) in &r.preemptions {
                replay_map.insert(s, t);
            }
            for &(s, a) in &r.stale {
                replay_stale.insert(s, a);
            }
            for &(s, k, n) in &r.fs {
                replay_fs.insert(s, (k, n));
            }
        }
        let mut sched_rng = Rng::new(cfg.seed_schedule);
        let mut pct_change_points = vec![];
        if let Strategy::Pct(d) = cfg.strategy {
            for _ in 1..d {
                pct_change_points.push(1 + sched_rng.below(cfg.expected_steps.max(2)));
            }
        }
        Sim {
            sched_rng,
            fault_rng: Rng::new(cfg.seed_fault),
            rng_rng: Rng::new(cfg.seed_rng),
            fs_rng: Rng::new(cfg.seed_fs),
            cfg,
            step: 0,
            clock: 0,
            polls: 0,
            regions: 0,
            polls_in_region: 0,
            tasks: vec![],
            cur: None,
            fingerprint: 0x5157_1234_abcd_ef01,
            preemptions: vec![],
            replay_map,
            replay_stale,
            replay_fs,
            context_switches: 0,
            max_runnable: 0,
            fault_counts: BTreeMap::new(),
            probes: BTreeMap::new(),
            flipped: false,
            flip_step: None,
            flip_poll: None,
            live_at_flip: 0,
            live_now: 1,
            units_total: 0,
            units_after_flip: 0,
            true_polls: 0,
            a3_violations: vec![],
            notes: vec![],
            livelock: false,
            rr_count: 0,
            pct_change_points,
            pct_low: 1 << 20,
            relaxed_loads: 0,
            stale_events: vec![],
            fs_writes: 0,
            fs_events: vec![],
            rng_draws: 0,
            rng_cut: false,
            rng_last: 0,
            unit_events: vec![],
            stopping: false,
            started_at: std::time::Instant::now(),
            wall_hit: false,
        }
    }

    pub(crate) fn ensure_task(&mut self, id: usize) {
        while self.tasks.len() <= id {
            let id_now = self.tasks.len();
            let slow = if let Some(r) = &self.cfg.replay {
                r.slow.get(id_now).copied().unwrap_or(1).max(1)
            } else if self.cfg.slow_max > 1 {
                // most threads run at speed 1, some are slower
                if self.fault_rng.chance(0.3) {
                    let s = self.fault_rng.range(2, self.cfg.slow_max);
                    *self.fault_counts.entry("slow_worker").or_insert(0) += 1;
                    s
                } else {
                    1
                }
            } else {
                1
            };
            // PCT priorities: random, all above the "lowered" band
            let prio = (1u64 << 32) + (self.sched_rng.next_u64() >> 16);
            self.tasks.push(TaskInfo {
                pending: OpKind::Start,
                slow,
                got_true: false,
                stalled_until: 0,
                prio,
                sync_floor: 0,
                finished_seen: false,
            });
        }
    }

    pub(crate) fn count(&mut self, k: &'static str) {
        *self.fault_counts.entry(k).or_insert(0) += 1;
    }

    pub(crate) fn probe(&mut self, k: &str) {
        if let Some(v) = self.probes.get_mut(k) {
            *v += 1;
        } else {
            self.probes.insert(k.to_string(), 1);
        }
    }
}

fn stall_eligible(k: OpKind) -> bool {
    matches!(
        k,
        OpKind::AtomicStore
            | OpKind::AtomicRmw
            | OpKind::LockWrite
            | OpKind::LockRead
            | OpKind::Claim
            | OpKind::Probe
            | OpKind::Client
    )
}

struct SimScheduler {
    started: bool,
}

impl Scheduler for SimScheduler {
    fn new_execution(&mut self) -> Option<Schedule> {
        if self.started {
            None
        } else {
            self.started = true;
            Some(Schedule::new(0))
        }
    }

    fn next_task(
        &mut self,
        runnable: &[&Task],
        current: Option<TaskId>,
        _is_yielding: bool,
    ) -> Option<TaskId> {
        with_sim(|sim| {
            sim.step += 1;
            let step = sim.step;
            let cur: Option<usize> = current.map(|t| t.into());
            let ids: Vec<usize> = runnable.iter().map(|t| t.id().into()).collect();
            for &i in &ids {
                sim.ensure_task(i);
            }
            if let Some(c) = cur {
                sim.ensure_task(c);
            }
            if ids.len() > sim.max_runnable {
                sim.max_runnable = ids.len();
            }
            let cur_runnable = cur.map(|c| ids.contains(&c)).unwrap_or(false);
            let default = if cur_runnable {
                cur.unwrap()
            } else {
                *ids.iter().min().unwrap()
            };
            let replaying = sim.cfg.replay.is_some();
            // stall fault: the current task is about to perform a publishing/claiming operation
            if !replaying
                && cur_runnable
                && (sim.cfg.stall_prob > 0.0 || sim.cfg.stall_prob_store > 0.0)
                && ids.len() > 1
            {
                let c = cur.unwrap();
                let k = sim.tasks[c].pending;
                let p = if matches!(k, OpKind::AtomicStore | OpKind::AtomicRmw) {
                    sim.cfg.stall_prob_store
                } else {
                    sim.cfg.stall_prob
                };
                if stall_eligible(k)
                    && p > 0.0
                    && sim.tasks[c].stalled_until <= step
                    && sim.fault_rng.chance(p)
                {
                    let len = 1 + sim.fault_rng.below(sim.cfg.stall_max_len.max(1));
                    sim.tasks[c].stalled_until = step + len;
                    sim.count("stall");
                }
            }
            let choice = if replaying {
                match sim.replay_map.get(&step) {
                    Some(&t) if ids.contains(&t) => t,
                    _ => default,
                }
            } else {
                let cands: Vec<usize> = {
                    let c: Vec<usize> = ids
                        .iter()
                        .copied()
                        .filter(|&i| sim.tasks[i].stalled_until <= step)
                        .collect();
                    if c.is_empty() {
                        ids.clone()
                    } else {
                        c
                    }
                };
                let cur_cand = cur.filter(|c| cands.contains(c));
                match sim.cfg.strategy.clone() {
                    Strategy::Default => {
                        if let Some(c) = cur_cand {
                            c
                        } else {
                            *cands.iter().min().unwrap()
                        }
                    }
                    Strategy::Random => cands[sim.sched_rng.below(cands.len() as u64) as usize],
                    Strategy::Sticky(p) => {
                        if cands.len() == 1 {
                            cands[0]
                        } else if let Some(c) = cur_cand {
                            if sim.sched_rng.chance(p) {
                                c
                            } else {
                                cands[sim.sched_rng.below(cands.len() as u64) as usize]
                            }
                        } else {
                            cands[sim.sched_rng.below(cands.len() as u64) as usize]
                        }
                    }
                    Strategy::RoundRobin(q) => {
                        sim.rr_count += 1;
                        if let (Some(c), true) = (cur_cand, sim.rr_count % q.max(1) != 0) {
                            c
                        } else {
                            // next id after cur in cyclic order
                            let base = cur.unwrap_or(0);
                            let mut best = None;
                            for &i in &cands {
                                if i > base {
                                    best = Some(best.map_or(i, |b: usize| b.min(i)));
                                }
                            }
                            best.unwrap_or_else(|| *cands.iter().min().unwrap())
                        }
                    }
                    Strategy::Pct(_) => {
                        if sim.pct_change_points.contains(&step) {
                            if let Some(c) = cur {
                                sim.pct_low -= 1;
                                sim.tasks[c].prio = sim.pct_low;
                                sim.probe("pct_change_point");
                            }
                        }
                        *cands.iter().max_by_key(|&&i| sim.tasks[i].prio).unwrap()
                    }
                }
            };
            if choice != default {
                sim.preemptions.push((step, choice));
            }
            if Some(choice) != cur {
                sim.context_switches += 1;
            }
            sim.clock += sim.tasks[choice].slow;
            sim.fingerprint = mix(&[
                sim.fingerprint,
                choice as u64,
                sim.tasks[choice].pending as u64,
            ]);
            sim.cur = Some(choice);
            if step > sim.cfg.step_cap {
                sim.livelock = true;
                sim.stopping = true;
                return None;
            }
            if let Some(ms) = sim.cfg.wall_limit_ms {
                if step % 16 == 0 && sim.started_at.elapsed().as_millis() as u64 > ms {
                    sim.wall_hit = true;
                    sim.stopping = true;
                    return None;
                }
            }
            Some(TaskId::from(choice))
        })
    }

    fn next_u64(&mut self) -> u64 {
        with_sim(|sim| sim.sched_rng.next_u64())
    }
}

/// A scheduling point: the current simulated thread is about to perform `kind`.
#[inline]
pub fn sched_point(kind: OpKind) {
    if !in_sim() {
        return;
    }
    if std::thread::panicking() {
        return;
    }
    let stop = with_sim(|sim| {
        if sim.stopping {
            return true;
        }
        if let Some(c) = sim.cur {
            sim.tasks[c].pending = kind;
        }
        false
    });
    if stop {
        return;
    }
    shuttle_engine::runtime::thread::switch();
}

fn install_hook() {
    if HOOK_INSTALLED.with(|h| h.replace(true)) {
        return;
    }
    std::panic::set_hook(Box::new(|info| {
        // (locations are reported relative to the crate they are in, see norm_loc)
        let msg = if let Some(s) = info.payload().downcast_ref::<&str>() {
            s.to_string()
        } else if let Some(s) = info.payload().downcast_ref::<String>() {
            s.clone()
        } else {
            "<non-string panic payload>".to_string()
        };
        let loc = info
            .location()
            .map(|l| format!("{}:{}", norm_loc(l.file()), l.line()))
            .unwrap_or_else(|| "<unknown>".into());
        if std::env::var("VERIF_BACKTRACE").is_ok() {
            // debugging aid only
            eprintln!("panic: {msg} at {loc}\n{}", std::backtrace::Backtrace::force_capture());
        }
        FIRST_PANIC.with(|p| {
            let mut p = p.borrow_mut();
            if p.is_none() {
                *p = Some((msg, loc));
            }
        });
    }));
}

/// Run `f` as the main simulated thread under `cfg`. Returns the outcome and `f`'s result
/// (None if the run did not complete).
pub fn run_sim<R: Send + 'static>(
    cfg: SimConfig,
    f: impl FnOnce() -> R + Send + 'static,
) -> (SimOutcome, Option<R>) {
    assert!(!in_sim(), "nested simulation");
    EPOCH.with(|e| e.set(e.get() + 1));
    let main_stack = cfg.main_stack;
    SIM.with(|s| *s.borrow_mut() = Some(Sim::new(cfg)));
    FIRST_PANIC.with(|p| *p.borrow_mut() = None);
    crate::sync::reset_registry();
    crate::fs::reset();
    let result: Arc<Mutex<Option<R>>> = Arc::new(Mutex::new(None));
    let fcell = Mutex::new(Some(f));
    let r2 = result.clone();
    let mut scfg = shuttle_engine::Config::new();
    scfg.stack_size = main_stack;
    scfg.failure_persistence = shuttle_engine::FailurePersistence::None;
    scfg.max_steps = shuttle_engine::MaxSteps::None;
    scfg.silence_warnings = true;
    let runner = shuttle_engine::Runner::new(SimScheduler { started: false }, scfg);
    ACTIVE.with(|a| a.set(true));
    let res = std::panic::catch_unwind(std::panic::AssertUnwindSafe(|| {
        runner.run(move || {
            install_hook();
            let f = fcell.lock().unwrap().take().expect("main closure runs once");
            let r = f();
            *r2.lock().unwrap() = Some(r);
        });
    }));
    ACTIVE.with(|a| a.set(false));
    let sim = SIM.with(|s| s.borrow_mut().take()).unwrap();
    let first_panic = FIRST_PANIC.with(|p| p.borrow_mut().take());
    let end = if sim.wall_hit {
        RunEnd::WallLimit
    } else if sim.livelock {
        RunEnd::Livelock
    } else {
        match res {
            Ok(()) => RunEnd::Completed,
            Err(payload) => {
                let (msg, loc) = first_panic.unwrap_or_else(|| {
                    let m = if let Some(s) = payload.downcast_ref::<&str>() {
                        s.to_string()
                    } else if let Some(s) = payload.downcast_ref::<String>() {
                        s.clone()
                    } else {
                        "<unknown panic>".into()
                    };
                    (m, "<unknown>".into())
                });
                if msg.starts_with("deadlock!") {
                    RunEnd::Deadlock(msg)
                } else {
                    RunEnd::Panic {
                        message: msg,
                        location: loc,
                    }
                }
            }
        }
    };
    let r = result.lock().unwrap().take();
    let out = SimOutcome {
        end,
        steps: sim.step,
        clock: sim.clock,
        polls: sim.polls,
        fingerprint: sim.fingerprint,
        preemptions: sim.preemptions,
        context_switches: sim.context_switches,
        max_runnable: sim.max_runnable,
        tasks_seen: sim.tasks.len(),
        fault_counts: sim.fault_counts,
        probes: sim.probes,
        flip_step: sim.flip_step,
        flip_poll: sim.flip_poll,
        live_at_flip: sim.live_at_flip,
        units_total: sim.units_total,
        units_after_flip: sim.units_after_flip,
        true_polls: sim.true_polls,
        a3_violations: sim.a3_violations,
        notes: sim.notes,
        stale_events: sim.stale_events,
        fs_events: sim.fs_events,
        rng_draws: sim.rng_draws,
        rng_cut: sim.rng_cut,
        unit_events: sim.unit_events,
        slow_factors: sim.tasks.iter().map(|t| t.slow).collect(),
    };
    (out, r)
}

pub fn with_sim_pub<R>(f: impl FnOnce(&SimConfig) -> R) -> R {
    with_sim(|s| f(&s.cfg))
}

/// Number of simulations started on this OS thread so far (facades use it to drop per-run state).
pub fn run_epoch() -> u64 {
    EPOCH.with(|e| e.get())
}


/// Source file of a panic, relative to its crate: `/repo/src/siqs.rs` and `/tmp/x/src/siqs.rs` both give
/// `src/siqs.rs`; files of registry crates give `<crate>-<version>/src/...`. Violation classes and replay
/// files are thereby independent of where the repository under test is checked out.
pub fn norm_loc(file: &str) -> String {
    if let Some(i) = file.find("/registry/src/") {
        let rest = &file[i + "/registry/src/".len()..];
        return match rest.find('/') {
            Some(j) => rest[j + 1..].to_string(),
            None => rest.to_string(),
        };
    }
    match file.find("/src/") {
        Some(i) => file[i + 1..].to_string(),
        None => file.to_string(),
    }
}
