//! Source of the words returned by the `rand::thread_rng()` seam.

use crate::prng::Rng;
use crate::sim::{in_sim, sched_point, with_sim, OpKind, RngBias};
use std::cell::RefCell;

thread_local! {
    static OUTSIDE: RefCell<Rng> = RefCell::new(Rng::new(0x1234_5678));
}

#[derive(Debug)]
pub struct RngExhausted;

/// Next word of the run's `rng` stream (possibly biased for a prefix of the draws).
pub fn next_u64() -> u64 {
    if !in_sim() {
        return OUTSIDE.with(|r| r.borrow_mut().next_u64());
    }
    sched_point(OpKind::RngDraw);
    let r = with_sim(|s| {
        s.rng_draws += 1;
        let k = s.rng_draws;
        if k > s.cfg.rng_draw_budget {
            s.rng_cut = true;
            return None;
        }
        let fair = s.rng_rng.next_u64();
        let v = match s.cfg.rng_bias.clone() {
            RngBias::Fair => fair,
            RngBias::AllZero => 0,
            RngBias::LowWeight { prefix } if k <= prefix => {
                // a few set bits only
                let a = fair & 63;
                let b = (fair >> 8) & 63;
                if fair & (1 << 20) != 0 {
                    1u64 << a
                } else {
                    (1u64 << a) | (1u64 << b)
                }
            }
            RngBias::Repeated { prefix } if k <= prefix => {
                if k == 1 || fair & 7 == 0 {
                    s.rng_last = fair;
                }
                s.rng_last
            }
            RngBias::ZeroLanes { prefix } if k <= prefix => {
                // zero out a fixed half of the lanes (bit positions)
                fair & 0x0000_ffff_0000_ffff
            }
            _ => fair,
        };
        if v != fair {
            s.count("biased_rng_word");
        }
        Some(v)
    });
    match r {
        Some(v) => v,
        None => std::panic::panic_any(RngExhausted),
    }
}
