//! Probes called by cfg-guarded hooks in /repo and by the harness' abort predicate.

use crate::sim::{current_task, in_sim, sched_point, with_sim, AbortPlan, OpKind, UnitEvent};
use std::any::Any;
use std::cell::RefCell;

/// The simulated caller's abort predicate. Latched: once true, always true.
pub fn abort_poll() -> bool {
    if !in_sim() {
        return false;
    }
    sched_point(OpKind::Poll);
    let me = current_task();
    with_sim(|s| {
        s.polls += 1;
        s.polls_in_region += 1;
        if !s.flipped {
            let flip = match s.cfg.abort {
                AbortPlan::Never => false,
                AbortPlan::AtPoll(k) => s.polls >= k,
                AbortPlan::AtTime(t) => s.clock >= t,
                AbortPlan::AtRegion(r, p) => s.regions == r && s.polls_in_region >= p,
            };
            if flip {
                s.flipped = true;
                s.flip_step = Some(s.step);
                s.flip_poll = Some(s.polls);
                s.live_at_flip = s.live_now;
                s.count("abort_flip");
            }
        }
        s.ensure_task(me);
        if s.flipped {
            s.tasks[me].got_true = true;
            s.true_polls += 1;
        }
        s.flipped
    })
}

/// A gated work unit begins on the current simulated thread (hook H3).
pub fn unit_begin(kind: &'static str) {
    if !in_sim() {
        return;
    }
    sched_point(OpKind::Probe);
    let me = current_task();
    with_sim(|s| {
        s.ensure_task(me);
        s.units_total += 1;
        // For a time-based plan the flip instant is the moment the clock passes T, whether or
        // not somebody polled since: the predicate would answer true from then on.
        if !s.flipped {
            if let AbortPlan::AtTime(t) = s.cfg.abort {
                if s.clock >= t {
                    s.flipped = true;
                    s.flip_step = Some(s.step);
                    s.flip_poll = Some(s.polls + 1);
                    s.live_at_flip = s.live_now;
                    s.count("abort_flip");
                }
            }
        }
        let after_flip = s.flipped;
        let had_true = s.tasks[me].got_true;
        if s.flipped {
            s.units_after_flip += 1;
        }
        if had_true {
            s.a3_violations.push(format!(
                "thread {me} began unit '{kind}' at step {} after its abort poll had returned true",
                s.step
            ));
        }
        if s.unit_events.len() < 4096 {
            s.unit_events.push(UnitEvent {
                step: s.step,
                task: me,
                kind,
                after_flip,
                task_had_true: had_true,
            });
        }
    });
}

pub fn count(name: &str) {
    if in_sim() {
        with_sim(|s| s.probe(name));
    }
}

pub fn note(msg: String) {
    if in_sim() {
        with_sim(|s| {
            if s.notes.len() < 64 {
                s.notes.push(msg)
            }
        });
    }
}

pub fn clock() -> u64 {
    if in_sim() {
        with_sim(|s| s.clock)
    } else {
        0
    }
}

pub fn step() -> u64 {
    if in_sim() {
        with_sim(|s| s.step)
    } else {
        0
    }
}

type Observer = Box<dyn Fn(&'static str, &dyn Any)>;
thread_local! {
    static OBSERVER: RefCell<Option<Observer>> = const { RefCell::new(None) };
}

/// Install the observer called by the hooks in the relation store (H4).
pub fn set_observer(o: Option<Observer>) {
    OBSERVER.with(|c| *c.borrow_mut() = o);
}

/// Called by hooks: hand an object of the library to the harness' observer.
pub fn observe(tag: &'static str, obj: &dyn Any) {
    OBSERVER.with(|c| {
        if let Some(o) = c.borrow().as_ref() {
            o(tag, obj);
        }
    });
}

pub fn has_observer() -> bool {
    OBSERVER.with(|c| c.borrow().is_some())
}

/// A parallel region (pool.install / par_iter / join) begins: called by the rayon facade.
pub fn region_begin() {
    if in_sim() {
        with_sim(|s| {
            s.regions += 1;
            s.polls_in_region = 0;
        });
    }
}
