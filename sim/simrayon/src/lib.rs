//! Facade over the part of rayon's API that yamaquasi uses, executed by simulated threads.
//!
//! Work distribution is a model, not rayon's deque code: the workers of a region claim the
//! remaining items through one scheduling point each; the claim policy (in order / rayon-like
//! halving with stealing / random permutation) is chosen per run by the simulator. The set of
//! item→worker/order assignments is a superset of what work stealing can produce.

use simcore::prng::Rng;
use simcore::sim::{current_task, in_sim, sched_point, OpKind};
use simcore::{task, ClaimPolicy};
use std::cell::{RefCell, UnsafeCell};
use std::collections::HashMap;
use std::ops::Range;

pub mod prelude {
    pub use crate::{
        IntoParallelIterator, IntoParallelRefIterator, ParallelIterator, ParallelSlice,
    };
}

thread_local! {
    /// simulated task id -> size of the pool it is a worker of
    static POOL_OF_TASK: RefCell<HashMap<usize, usize>> = RefCell::new(HashMap::new());
    static POOL_EPOCH: std::cell::Cell<u64> = const { std::cell::Cell::new(0) };
}

/// Task ids restart at 0 in every simulation: forget entries left by a run that ended abnormally.
fn fresh_epoch() {
    let e = simcore::sim::run_epoch();
    if POOL_EPOCH.with(|c| c.replace(e)) != e {
        POOL_OF_TASK.with(|m| m.borrow_mut().clear());
    }
}

fn current_pool_size() -> usize {
    if !in_sim() {
        return 1;
    }
    fresh_epoch();
    let me = current_task();
    POOL_OF_TASK
        .with(|m| m.borrow().get(&me).copied())
        .unwrap_or_else(simcore::num_threads_default)
}

fn register(task: usize, n: usize) {
    fresh_epoch();
    POOL_OF_TASK.with(|m| {
        m.borrow_mut().insert(task, n);
    });
}
fn unregister(task: usize) {
    POOL_OF_TASK.with(|m| {
        m.borrow_mut().remove(&task);
    });
}

#[derive(Debug)]
pub struct ThreadPoolBuildError;
impl std::fmt::Display for ThreadPoolBuildError {
    fn fmt(&self, f: &mut std::fmt::Formatter<'_>) -> std::fmt::Result {
        write!(f, "simulated thread pool build error")
    }
}
impl std::error::Error for ThreadPoolBuildError {}

#[derive(Default)]
pub struct ThreadPoolBuilder {
    n: usize,
}

impl ThreadPoolBuilder {
    pub fn new() -> Self {
        ThreadPoolBuilder { n: 0 }
    }
    pub fn num_threads(mut self, n: usize) -> Self {
        self.n = n;
        self
    }
    pub fn build(self) -> Result<ThreadPool, ThreadPoolBuildError> {
        let n = if self.n == 0 {
            // "machine default": resolved by the simulator
            simcore::probe::count("pool_size_machine_default");
            simcore::num_threads_default().max(1)
        } else {
            self.n
        };
        Ok(ThreadPool { n })
    }
}

#[derive(Debug)]
pub struct ThreadPool {
    n: usize,
}

impl ThreadPool {
    pub fn current_num_threads(&self) -> usize {
        self.n
    }

    /// Runs `op` on a worker of the pool; the caller blocks meanwhile (as with rayon).
    pub fn install<OP, R>(&self, op: OP) -> R
    where
        OP: FnOnce() -> R + Send,
        R: Send,
    {
        if !in_sim() {
            return op();
        }
        let n = self.n;
        let slot: UnsafeCell<Option<R>> = UnsafeCell::new(None);
        struct Ptr<T>(*mut Option<T>);
        unsafe impl<T> Send for Ptr<T> {}
        let p = Ptr(slot.get());
        let h = unsafe {
            task::spawn_scoped(
                move || {
                    let p = p;
                    let me = current_task();
                    register(me, n);
                    let r = op();
                    unregister(me);
                    *p.0 = Some(r);
                },
                simcore::worker_stack(),
                "pool-worker-0",
            )
        };
        task::join(h);
        slot.into_inner().expect("install: worker finished without result")
    }
}

pub fn current_num_threads() -> usize {
    current_pool_size()
}

/// rayon::join: `b` may be stolen by another worker of the pool and run concurrently with `a`.
pub fn join<A, B, RA, RB>(oper_a: A, oper_b: B) -> (RA, RB)
where
    A: FnOnce() -> RA + Send,
    B: FnOnce() -> RB + Send,
    RA: Send,
    RB: Send,
{
    let n = current_pool_size();
    if !in_sim() || n <= 1 {
        let ra = oper_a();
        let rb = oper_b();
        return (ra, rb);
    }
    let slot: UnsafeCell<Option<RB>> = UnsafeCell::new(None);
    struct Ptr<T>(*mut Option<T>);
    unsafe impl<T> Send for Ptr<T> {}
    let p = Ptr(slot.get());
    let h = unsafe {
        task::spawn_scoped(
            move || {
                let p = p;
                let me = current_task();
                register(me, n);
                let r = oper_b();
                unregister(me);
                *p.0 = Some(r);
            },
            simcore::worker_stack(),
            "pool-join-b",
        )
    };
    let ra = oper_a();
    task::join(h);
    (ra, slot.into_inner().expect("join: b finished without result"))
}

// ---------------------------------------------------------------------------------------------
// Claiming of items

struct ClaimState {
    policy: ClaimPolicy,
    n_items: usize,
    next: usize,
    perm: Vec<usize>,
    /// Halving: per worker remaining range [lo, hi)
    ranges: Vec<(usize, usize)>,
}

impl ClaimState {
    fn new(n_items: usize, workers: usize) -> Self {
        let (mut policy, seed) = simcore::claim_policy();
        if policy == ClaimPolicy::RandomPerm && n_items > 64 {
            policy = ClaimPolicy::Halving;
        }
        let mut perm = vec![];
        let mut ranges = vec![];
        match policy {
            ClaimPolicy::InOrder => {}
            ClaimPolicy::RandomPerm => {
                perm = (0..n_items).collect();
                let mut rng = Rng::new(seed ^ (n_items as u64) << 32);
                rng.shuffle(&mut perm);
            }
            ClaimPolicy::Halving => {
                // split [0, n) recursively into `workers` contiguous parts, as rayon's splitter
                // does for its first num_threads splits.
                ranges = vec![(0, n_items)];
                while ranges.len() < workers {
                    // split the largest range
                    let (k, &(lo, hi)) = ranges
                        .iter()
                        .enumerate()
                        .max_by_key(|(_, &(lo, hi))| hi - lo)
                        .unwrap();
                    if hi - lo < 2 {
                        break;
                    }
                    let mid = lo + (hi - lo) / 2;
                    ranges[k] = (lo, mid);
                    ranges.insert(k + 1, (mid, hi));
                }
                while ranges.len() < workers {
                    ranges.push((0, 0));
                }
            }
        }
        ClaimState {
            policy,
            n_items,
            next: 0,
            perm,
            ranges,
        }
    }

    fn claim(&mut self, worker: usize) -> Option<usize> {
        match self.policy {
            ClaimPolicy::InOrder => {
                if self.next < self.n_items {
                    self.next += 1;
                    Some(self.next - 1)
                } else {
                    None
                }
            }
            ClaimPolicy::RandomPerm => {
                if self.next < self.n_items {
                    self.next += 1;
                    Some(self.perm[self.next - 1])
                } else {
                    None
                }
            }
            ClaimPolicy::Halving => {
                let (lo, hi) = self.ranges[worker];
                if lo < hi {
                    self.ranges[worker].0 += 1;
                    return Some(lo);
                }
                // steal the upper half of the largest remaining range
                let (k, &(lo, hi)) = self
                    .ranges
                    .iter()
                    .enumerate()
                    .max_by_key(|(_, &(lo, hi))| hi - lo)
                    .unwrap();
                if hi <= lo {
                    return None;
                }
                simcore::probe::count("rayon_steal");
                let mid = lo + (hi - lo) / 2;
                // victim keeps [lo, mid), thief takes [mid, hi); a single item is taken whole
                if mid == lo {
                    self.ranges[k] = (lo, lo);
                    self.ranges[worker] = (lo + 1, hi);
                    Some(lo)
                } else {
                    self.ranges[k] = (lo, mid);
                    self.ranges[worker] = (mid + 1, hi);
                    Some(mid)
                }
            }
        }
    }
}

struct Shared<T>(UnsafeCell<T>);
// one OS thread runs all simulated threads; accesses never overlap in time
unsafe impl<T> Sync for Shared<T> {}
unsafe impl<T> Send for Shared<T> {}
impl<T> Shared<T> {
    fn ptr(&self) -> *mut T {
        self.0.get()
    }
}

fn drive<W: Fn(usize) + Sync>(n_items: usize, work: W) {
    if !in_sim() {
        for i in 0..n_items {
            work(i);
        }
        return;
    }
    let pool = current_pool_size().max(1);
    let workers = pool.min(n_items.max(1));
    simcore::probe::region_begin();
    let state = Shared(UnsafeCell::new(ClaimState::new(n_items, workers)));
    let worker_loop = |k: usize| loop {
        sched_point(OpKind::Claim);
        let item = unsafe { (*state.ptr()).claim(k) };
        match item {
            Some(i) => work(i),
            None => break,
        }
    };
    let wl = &worker_loop;
    let mut hs = vec![];
    for k in 1..workers {
        hs.push(unsafe {
            task::spawn_scoped(
                move || {
                    let me = current_task();
                    register(me, pool);
                    wl(k);
                    unregister(me);
                },
                simcore::worker_stack(),
                "pool-worker",
            )
        });
    }
    wl(0);
    for h in hs {
        task::join(h);
    }
}

// ---------------------------------------------------------------------------------------------
// Iterators

pub trait ParallelIterator: Sized + Sync {
    type Item: Send;
    fn par_len(&self) -> usize;
    /// Produce the i-th item. Each index is requested at most once.
    fn par_get(&self, i: usize) -> Self::Item;

    fn for_each<F>(self, f: F)
    where
        F: Fn(Self::Item) + Sync + Send,
    {
        let n = self.par_len();
        drive(n, |i| f(self.par_get(i)));
    }

    fn map<R, F>(self, f: F) -> Map<Self, F>
    where
        R: Send,
        F: Fn(Self::Item) -> R + Sync + Send,
    {
        Map { inner: self, f }
    }

    fn collect<C>(self) -> C
    where
        C: FromParallelIterator<Self::Item>,
    {
        C::from_par_iter(self)
    }
}

pub trait FromParallelIterator<T: Send> {
    fn from_par_iter<I: ParallelIterator<Item = T>>(it: I) -> Self;
}

impl<T: Send> FromParallelIterator<T> for Vec<T> {
    fn from_par_iter<I: ParallelIterator<Item = T>>(it: I) -> Self {
        let n = it.par_len();
        let slots: Shared<Vec<Option<T>>> = Shared(UnsafeCell::new((0..n).map(|_| None).collect()));
        drive(n, |i| {
            let v = it.par_get(i);
            unsafe {
                (&mut *slots.ptr())[i] = Some(v);
            }
        });
        slots
            .0
            .into_inner()
            .into_iter()
            .map(|x| x.expect("item not produced"))
            .collect()
    }
}

pub struct Map<I, F> {
    inner: I,
    f: F,
}

impl<I, R, F> ParallelIterator for Map<I, F>
where
    I: ParallelIterator,
    R: Send,
    F: Fn(I::Item) -> R + Sync + Send,
{
    type Item = R;
    fn par_len(&self) -> usize {
        self.inner.par_len()
    }
    fn par_get(&self, i: usize) -> R {
        (self.f)(self.inner.par_get(i))
    }
}

pub struct SliceIter<'a, T: Sync> {
    s: &'a [T],
}
impl<'a, T: Sync> ParallelIterator for SliceIter<'a, T> {
    type Item = &'a T;
    fn par_len(&self) -> usize {
        self.s.len()
    }
    fn par_get(&self, i: usize) -> &'a T {
        &self.s[i]
    }
}

pub struct ChunksExact<'a, T: Sync> {
    s: &'a [T],
    k: usize,
}
impl<'a, T: Sync> ParallelIterator for ChunksExact<'a, T> {
    type Item = &'a [T];
    fn par_len(&self) -> usize {
        self.s.len() / self.k
    }
    fn par_get(&self, i: usize) -> &'a [T] {
        &self.s[i * self.k..(i + 1) * self.k]
    }
}

pub struct RangeIter<T> {
    r: Range<T>,
}

macro_rules! range_iter {
    ($($t:ty),*) => {$(
        impl ParallelIterator for RangeIter<$t> {
            type Item = $t;
            fn par_len(&self) -> usize {
                if self.r.end > self.r.start { (self.r.end - self.r.start) as usize } else { 0 }
            }
            fn par_get(&self, i: usize) -> $t {
                self.r.start + i as $t
            }
        }
    )*};
}
range_iter!(i32, u32, i64, u64, usize, isize, u16, i16, u8);

// one generic impl (as in rayon) so that integer-literal ranges still fall back to i32
impl<T> IntoParallelIterator for Range<T>
where
    RangeIter<T>: ParallelIterator,
{
    type Iter = RangeIter<T>;
    type Item = <RangeIter<T> as ParallelIterator>::Item;
    fn into_par_iter(self) -> RangeIter<T> {
        RangeIter { r: self }
    }
}

pub trait IntoParallelIterator {
    type Iter: ParallelIterator<Item = Self::Item>;
    type Item: Send;
    fn into_par_iter(self) -> Self::Iter;
}

pub trait IntoParallelRefIterator<'data> {
    type Iter: ParallelIterator<Item = Self::Item>;
    type Item: Send + 'data;
    fn par_iter(&'data self) -> Self::Iter;
}

impl<'data, T: Sync + 'data> IntoParallelRefIterator<'data> for [T] {
    type Iter = SliceIter<'data, T>;
    type Item = &'data T;
    fn par_iter(&'data self) -> SliceIter<'data, T> {
        SliceIter { s: self }
    }
}
impl<'data, T: Sync + 'data> IntoParallelRefIterator<'data> for Vec<T> {
    type Iter = SliceIter<'data, T>;
    type Item = &'data T;
    fn par_iter(&'data self) -> SliceIter<'data, T> {
        SliceIter { s: &self[..] }
    }
}

pub trait ParallelSlice<T: Sync> {
    fn as_parallel_slice(&self) -> &[T];
    fn par_chunks_exact(&self, k: usize) -> ChunksExact<'_, T> {
        assert!(k != 0, "chunk_size must not be zero");
        ChunksExact {
            s: self.as_parallel_slice(),
            k,
        }
    }
}
impl<T: Sync> ParallelSlice<T> for [T] {
    fn as_parallel_slice(&self) -> &[T] {
        self
    }
}
