//! Facade over `rand 0.8`: everything is the real crate, except `thread_rng()`, which is fed
//! from the simulator's `rng` stream (seam 2 of DESIGN.md §3.2).

pub use real_rand::*;

/// Replacement of `rand::rngs::ThreadRng`.
#[derive(Clone, Debug, Default)]
pub struct SimThreadRng;

impl RngCore for SimThreadRng {
    fn next_u32(&mut self) -> u32 {
        (simcore::rngseam::next_u64() >> 32) as u32
    }
    fn next_u64(&mut self) -> u64 {
        simcore::rngseam::next_u64()
    }
    fn fill_bytes(&mut self, dest: &mut [u8]) {
        for chunk in dest.chunks_mut(8) {
            let w = simcore::rngseam::next_u64().to_le_bytes();
            chunk.copy_from_slice(&w[..chunk.len()]);
        }
    }
    fn try_fill_bytes(&mut self, dest: &mut [u8]) -> Result<(), Error> {
        self.fill_bytes(dest);
        Ok(())
    }
}

impl CryptoRng for SimThreadRng {}

pub fn thread_rng() -> SimThreadRng {
    SimThreadRng
}

pub fn random<T>() -> T
where
    distributions::Standard: distributions::Distribution<T>,
{
    thread_rng().gen()
}
